#!/bin/sh
# Offline setup: nothing to download. Pre-builds the two helper tools (they are rebuilt on demand by the checks anyway:
# witness has path dependencies on /repo and is recompiled whenever /repo changes).
set -e
cd "$(dirname "$0")"
mkdir -p .cache evidence replays
export CARGO_NET_OFFLINE=true
(cd regexeq && CARGO_TARGET_DIR="$PWD/../.cache/regexeq-target" cargo build --release --offline >/dev/null 2>&1) || echo "setup: regexeq will be built on first use"
python3 -c "import sys; sys.path.insert(0, 'lib'); import witness; witness._exe()" >/dev/null 2>&1 || echo "setup: witness will be built on first use"
command -v verus >/dev/null || { echo "verus not on PATH"; exit 1; }
cargo kani --version >/dev/null 2>&1 || { echo "cargo kani not available"; exit 1; }
exit 0
