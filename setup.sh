#!/bin/sh
# Offline setup: nothing to download. Builds the small helper tools on first use.
set -e
cd "$(dirname "$0")"
mkdir -p .cache evidence replays
exit 0
