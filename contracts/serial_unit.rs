
// =====================================================================================
// serial_unit.rs - C16: the real SerialSignBus::process_message and its classifiers, extracted from
// libs/serial/src/serial_sign_bus.rs on every run, verified in the SAME file as Frame::write / Frame::read (so their
// contracts are proved here, relative to the std::io stand-ins, not assumed).
// =====================================================================================
#[derive(Clone, Copy, PartialEq, Eq, Structural)]
//@type libs/core/src/message.rs Offset derived "PartialEq, Eq, Copy, Clone"
#[derive(Clone, Copy, PartialEq, Eq, Structural)]
//@type libs/core/src/message.rs ChunkCount derived "PartialEq, Eq, Copy, Clone"
#[derive(Clone, Copy, PartialEq, Eq, Structural)]
//@type libs/core/src/message.rs State derived "PartialEq, Eq, Copy, Clone"
#[derive(Clone, Copy, PartialEq, Eq, Structural)]
//@type libs/core/src/message.rs Operation derived "PartialEq, Eq, Copy, Clone"
//@type libs/core/src/message.rs Message
//@logmacros trace! debug! info! warn! error!

/// stand-in for core::time::Duration as far as this file uses it (only `from_millis`)
#[derive(Clone, Copy, PartialEq, Eq, Structural)]
pub struct Duration { pub ms: u64 }
impl Duration {
    pub fn from_millis(ms: u64) -> (r: Duration) ensures r.ms == ms { Duration { ms } }
}

/// C16: a reply is due exactly for a hello, a state query and an operation request
pub open spec fn reply_due(m: Message<'_>) -> bool { m is Hello || m is QueryState || m is RequestOperation }

//@fn libs/serial/src/serial_sign_bus.rs - response_expected
//@ ret r
//@ contract
    ensures r == reply_due(*message),
//@end
//@fn libs/serial/src/serial_sign_bus.rs - delay_after_send
//@ ret r
//@ contract
    ensures r == (if *message is SendData { Some(Duration { ms: 30 }) } else { None::<Duration> }),
//@end
//@fn libs/serial/src/serial_sign_bus.rs - delay_after_receive
//@ ret r
//@ contract
    ensures r == (if *message matches Message::ReportState(_, st) && (st == State::PageLoadInProgress || st == State::PageShowInProgress) { Some(Duration { ms: 100 }) } else { None::<Duration> }),
//@end

// ---- stand-ins -------------------------------------------------------------------------------------------------
/// Frame <-> Message mapping: NOT verified here (uninterpreted; its table is the Kani proof of C04 / C05). All this unit
/// needs is that each direction is a function of its argument.
pub uninterp spec fn frame_of_msg<'a>(m: Message<'a>) -> Frame<'a>;
pub uninterp spec fn msg_of_frame<'a>(f: Frame<'a>) -> Message<'a>;
impl<'a> From<Message<'a>> for Frame<'a> {
    #[verifier::external_body]
    fn from(m: Message<'a>) -> (r: Frame<'a>) ensures r == frame_of_msg(m) { unimplemented!() }
}
impl<'a> vstd::std_specs::convert::FromSpecImpl<Message<'a>> for Frame<'a> {
    open spec fn obeys_from_spec() -> bool { true }
    open spec fn from_spec(m: Message<'a>) -> Frame<'a> { frame_of_msg(m) }
}
impl<'a> From<Frame<'a>> for Message<'a> {
    #[verifier::external_body]
    fn from(f: Frame<'a>) -> (r: Message<'a>) ensures r == msg_of_frame(f) { unimplemented!() }
}
impl<'a> vstd::std_specs::convert::FromSpecImpl<Frame<'a>> for Message<'a> {
    open spec fn obeys_from_spec() -> bool { true }
    open spec fn from_spec(f: Frame<'a>) -> Message<'a> { msg_of_frame(f) }
}
/// stand-in for Box<dyn Error + Send + Sync>: the only errors this function produces are converted FrameErrors
pub enum BusError { Frame(FrameError) }
impl From<FrameError> for BusError {
    fn from(e: FrameError) -> (r: BusError) { BusError::Frame(e) }
}
impl vstd::std_specs::convert::FromSpecImpl<FrameError> for BusError {
    open spec fn obeys_from_spec() -> bool { true }
    open spec fn from_spec(e: FrameError) -> BusError { BusError::Frame(e) }
}
/// stand-in for std::thread::sleep (pacing, C18, is not expressible here: no clock; it stays with the Kani event-order harnesses)
#[verifier::external_body]
fn thread_sleep(d: Duration) { unimplemented!() }

/// stand-in for serial_core::SerialPort as far as the bus uses it: a two-way byte device whose two directions are
/// independent (ASSUMED of every port: writing does not alter what will be read, reading does not alter what was written)
pub trait SerialPort: Read + Write + Sized {
    proof fn two_way(&self)
        ensures self.beside_sink() == self.rest(), self.beside_source() == self.sink();
}

//@type libs/serial/src/serial_sign_bus.rs SerialSignBus

pub open spec fn crlf() -> Seq<u8> { seq![13u8, 10u8] }

impl<P: SerialPort> SerialSignBus<P> {
//@fn libs/serial/src/serial_sign_bus.rs SignBus@SerialSignBus process_message
//@ ret r
//@ contract
    ensures
        ({
            let wire = enc(frame_of_msg(message)@) + crlf();
            let sink0 = old(self).port.sink(); let sink1 = final(self).port.sink();
            let rest0 = old(self).port.rest(); let rest1 = final(self).port.rest();
            match r {
                // one-way message delivered: exactly its frame with CRLF went out, nothing was read, no reply is invented
                Ok(None) => !reply_due(message) && sink1 == sink0 + wire && rest1 == rest0,
                // reply due and obtained: exactly the frame went out, exactly one line was consumed, the reply is the decoding of that line
                Ok(Some(reply)) => reply_due(message) && sink1 == sink0 + wire && rest1 == after_first_line(rest0)
                    && (dec(first_line(rest0)) matches DecV::Ok(fv) && exists|fr: Frame<'a>| fr@ == fv && reply == msg_of_frame(fr)),
                // failure: nothing but (a prefix of) the frame went out; without a completed write nothing is read; at most one line is consumed
                Err(_) => (sink1 == sink0 + wire || delivered_prefix(sink0, sink1, wire))
                    && (rest1 == rest0 || (reply_due(message) && sink1 == sink0 + wire && (rest1 == after_first_line(rest0) || consumed_at_most_line(rest0, rest1, 10u8)))),
            }
        }),
//@ sig "Box<dyn Error + Send + Sync>" => "BusError"
//@ rewrite "thread::sleep(duration)" => "thread_sleep(duration)" x2
//@ desugar-try
//@ entry
    proof {
        assert forall|p: P| #[trigger] p.beside_sink() == p.rest() by { p.two_way(); }
        assert forall|p: P| #[trigger] p.beside_source() == p.sink() by { p.two_way(); }
    }
//@end
}

// =====================================================================================
// C17: the ODK bridge, Odk::process_message, extracted from libs/testing/src/odk.rs on every run
// =====================================================================================
/// stand-in for the bus's error type Box<dyn Error + Send + Sync>
pub struct BusFailure;
//@type libs/testing/src/odk.rs OdkError "Box<dyn std::error::Error + Send + Sync>" => "BusFailure" "flipdot_core::FrameError" => "FrameError"
// thiserror's #[from] on the two variants
impl From<BusFailure> for OdkError {
    fn from(e: BusFailure) -> (r: OdkError) { OdkError::Bus { source: e } }
}
impl vstd::std_specs::convert::FromSpecImpl<BusFailure> for OdkError {
    open spec fn obeys_from_spec() -> bool { true }
    open spec fn from_spec(e: BusFailure) -> OdkError { OdkError::Bus { source: e } }
}
impl From<FrameError> for OdkError {
    fn from(e: FrameError) -> (r: OdkError) { OdkError::Communication { source: e } }
}
impl vstd::std_specs::convert::FromSpecImpl<FrameError> for OdkError {
    open spec fn obeys_from_spec() -> bool { true }
    open spec fn from_spec(e: FrameError) -> OdkError { OdkError::Communication { source: e } }
}
/// identity of a message as the bus sees it (opaque: lifetimes of borrowed data are irrelevant to it)
pub struct MsgKey { pub k: int }
pub uninterp spec fn mkey(m: Message<'_>) -> MsgKey;
/// what a reply puts on the wire
pub open spec fn wire_of(reply: Option<FrameV>) -> Seq<u8> {
    match reply { Some(fv) => enc(fv) + crlf(), None => Seq::<u8>::empty() }
}
/// stand-in for flipdot_core::SignBus with a ghost log: every message it was given, and what it answered (as wire frames)
pub trait SignBus {
    spec fn heard(&self) -> Seq<MsgKey>;
    spec fn answered(&self) -> Seq<Option<FrameV>>;
    fn process_message<'a>(&mut self, message: Message<'_>) -> (r: Result<Option<Message<'a>>, BusFailure>)
        ensures
            final(self).heard() == old(self).heard().push(mkey(message)),
            final(self).answered() == old(self).answered().push(match r { Ok(Some(m)) => Some(frame_of_msg(m)@), _ => None::<FrameV> });
}

//@type libs/testing/src/odk.rs Odk

impl<P: SerialPort, B: SignBus> Odk<P, B> {
    pub closed spec fn the_port(&self) -> P { self.port }
    pub closed spec fn the_bus(&self) -> B { self.bus }
//@fn libs/testing/src/odk.rs Odk process_message
//@ ret r
//@ contract
    ensures
        ({
            let sink0 = old(self).the_port().sink(); let sink1 = final(self).the_port().sink();
            let rest0 = old(self).the_port().rest(); let rest1 = final(self).the_port().rest();
            let heard0 = old(self).the_bus().heard(); let heard1 = final(self).the_bus().heard();
            let ans0 = old(self).the_bus().answered(); let ans1 = final(self).the_bus().answered();
            // success: exactly one line was taken off the port, it decoded, the bus was given exactly Message::from of that frame - once -,
            // and exactly the bus's answer (if any) went back on the wire, as one frame with CRLF
            &&& r is Ok ==> rest1 == after_first_line(rest0)
                    && (dec(first_line(rest0)) matches DecV::Ok(fv) && exists|fr: Frame<'static>| fr@ == fv && heard1 == heard0.push(mkey(msg_of_frame(fr))))
                    && ans1.len() == ans0.len() + 1 && sink1 == sink0 + wire_of(ans1.last())
            // a line that does not decode is never forwarded and never answered
            &&& !(dec(first_line(rest0)) is Ok) ==> r is Err && heard1 == heard0 && sink1 == sink0
            // any failure: the bus was asked at most once, and nothing is written unless the bus was asked
            &&& r is Err ==> (heard1 == heard0 && sink1 == sink0) || (heard1.len() == heard0.len() + 1 && ans1.len() == ans0.len() + 1
                    && (sink1 == sink0 || sink1 == sink0 + wire_of(ans1.last()) || delivered_prefix(sink0, sink1, wire_of(ans1.last()))))
        }),
//@ entry
    proof {
        assert forall|p: P| #[trigger] p.beside_sink() == p.rest() by { p.two_way(); }
        assert forall|p: P| #[trigger] p.beside_source() == p.sink() by { p.two_way(); }
    }
//@end
}
