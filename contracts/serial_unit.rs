
// =====================================================================================
// serial_unit.rs - C16: the real SerialSignBus::process_message and its classifiers, extracted from
// libs/serial/src/serial_sign_bus.rs on every run, verified in the SAME file as Frame::write / Frame::read (so their
// contracts are proved here, relative to the std::io stand-ins, not assumed).
// =====================================================================================
#[derive(Clone, Copy, PartialEq, Eq, Structural)]
//@type libs/core/src/message.rs Offset derived "PartialEq, Eq, Copy, Clone"
#[derive(Clone, Copy, PartialEq, Eq, Structural)]
//@type libs/core/src/message.rs ChunkCount derived "PartialEq, Eq, Copy, Clone"
#[derive(Clone, Copy, PartialEq, Eq, Structural)]
//@type libs/core/src/message.rs State derived "PartialEq, Eq, Copy, Clone"
#[derive(Clone, Copy, PartialEq, Eq, Structural)]
//@type libs/core/src/message.rs Operation derived "PartialEq, Eq, Copy, Clone"
//@type libs/core/src/message.rs Message
//@logmacros trace! debug! info! warn! error!

/// stand-in for core::time::Duration as far as this file uses it (only `from_millis`)
#[derive(Clone, Copy, PartialEq, Eq, Structural)]
pub struct Duration { pub ms: u64 }
impl Duration {
    pub fn from_millis(ms: u64) -> (r: Duration) ensures r.ms == ms { Duration { ms } }
}

/// C16: a reply is due exactly for a hello, a state query and an operation request
pub open spec fn reply_due(m: Message<'_>) -> bool { m is Hello || m is QueryState || m is RequestOperation }

//@fn libs/serial/src/serial_sign_bus.rs - response_expected
//@ ret r
//@ contract
    ensures r == reply_due(*message),
//@end
//@fn libs/serial/src/serial_sign_bus.rs - delay_after_send
//@ ret r
//@ contract
    ensures r == (if *message is SendData { Some(Duration { ms: 30 }) } else { None::<Duration> }),
//@end
//@fn libs/serial/src/serial_sign_bus.rs - delay_after_receive
//@ ret r
//@ contract
    ensures r == (if *message matches Message::ReportState(_, st) && (st == State::PageLoadInProgress || st == State::PageShowInProgress) { Some(Duration { ms: 100 }) } else { None::<Duration> }),
//@end

// ---- stand-ins -------------------------------------------------------------------------------------------------
/// Frame <-> Message mapping: NOT verified here (uninterpreted; its table is the Kani proof of C04 / C05). All this unit
/// needs is that each direction is a function of its argument.
pub uninterp spec fn frame_of_msg<'a>(m: Message<'a>) -> Frame<'a>;
pub uninterp spec fn msg_of_frame<'a>(f: Frame<'a>) -> Message<'a>;
impl<'a> From<Message<'a>> for Frame<'a> {
    #[verifier::external_body]
    fn from(m: Message<'a>) -> (r: Frame<'a>) ensures r == frame_of_msg(m) { unimplemented!() }
}
impl<'a> vstd::std_specs::convert::FromSpecImpl<Message<'a>> for Frame<'a> {
    open spec fn obeys_from_spec() -> bool { true }
    open spec fn from_spec(m: Message<'a>) -> Frame<'a> { frame_of_msg(m) }
}
impl<'a> From<Frame<'a>> for Message<'a> {
    #[verifier::external_body]
    fn from(f: Frame<'a>) -> (r: Message<'a>) ensures r == msg_of_frame(f) { unimplemented!() }
}
impl<'a> vstd::std_specs::convert::FromSpecImpl<Frame<'a>> for Message<'a> {
    open spec fn obeys_from_spec() -> bool { true }
    open spec fn from_spec(f: Frame<'a>) -> Message<'a> { msg_of_frame(f) }
}
/// stand-in for Box<dyn Error + Send + Sync>: the only errors this function produces are converted FrameErrors
pub enum BusError { Frame(FrameError) }
impl From<FrameError> for BusError {
    fn from(e: FrameError) -> (r: BusError) { BusError::Frame(e) }
}
impl vstd::std_specs::convert::FromSpecImpl<FrameError> for BusError {
    open spec fn obeys_from_spec() -> bool { true }
    open spec fn from_spec(e: FrameError) -> BusError { BusError::Frame(e) }
}
/// stand-in for std::thread::sleep (pacing, C18, is not expressible here: no clock; it stays with the Kani event-order harnesses)
#[verifier::external_body]
fn thread_sleep(d: Duration) { unimplemented!() }

/// stand-in for serial_core::SerialPort as far as the bus uses it: a two-way byte device whose two directions are
/// independent (ASSUMED of every port: writing does not alter what will be read, reading does not alter what was written)
pub trait SerialPort: Read + Write + Sized {
    proof fn two_way(&self)
        ensures self.beside_sink() == self.rest(), self.beside_source() == self.sink();
}

//@type libs/serial/src/serial_sign_bus.rs SerialSignBus

pub open spec fn crlf() -> Seq<u8> { seq![13u8, 10u8] }

impl<P: SerialPort> SerialSignBus<P> {
//@fn libs/serial/src/serial_sign_bus.rs SignBus@SerialSignBus process_message
//@ ret r
//@ contract
    ensures
        ({
            let wire = enc(frame_of_msg(message)@) + crlf();
            let sink0 = old(self).port.sink(); let sink1 = final(self).port.sink();
            let rest0 = old(self).port.rest(); let rest1 = final(self).port.rest();
            match r {
                // one-way message delivered: exactly its frame with CRLF went out, nothing was read, no reply is invented
                Ok(None) => !reply_due(message) && sink1 == sink0 + wire && rest1 == rest0,
                // reply due and obtained: exactly the frame went out, exactly one line was consumed, the reply is the decoding of that line
                Ok(Some(reply)) => reply_due(message) && sink1 == sink0 + wire && rest1 == after_first_line(rest0)
                    && (dec(first_line(rest0)) matches DecV::Ok(fv) && exists|fr: Frame<'a>| fr@ == fv && reply == msg_of_frame(fr)),
                // failure: nothing but (a prefix of) the frame went out; without a completed write nothing is read; at most one line is consumed
                Err(_) => (sink1 == sink0 + wire || delivered_prefix(sink0, sink1, wire))
                    && (rest1 == rest0 || (reply_due(message) && sink1 == sink0 + wire && (rest1 == after_first_line(rest0) || consumed_at_most_line(rest0, rest1, 10u8)))),
            }
        }),
//@ sig "Box<dyn Error + Send + Sync>" => "BusError"
//@ rewrite "thread::sleep(duration)" => "thread_sleep(duration)" x2
//@ desugar-try
//@ entry
    proof {
        assert forall|p: P| #[trigger] p.beside_sink() == p.rest() by { p.two_way(); }
        assert forall|p: P| #[trigger] p.beside_source() == p.sink() by { p.two_way(); }
    }
//@end
}
