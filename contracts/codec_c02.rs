// ---- codec_c02.rs: C02 — every single-fault corruption of a valid encoding is rejected or decodes to the original frame.
// Lemmas over the spec functions of codec_spec.rs only (no assume / admit). w ranges over enc(f) and enc(f) + CRLF.

pub open spec fn crlf() -> Seq<u8> { seq![13u8, 10u8] }
pub open spec fn wire(f: FrameV, nl: bool) -> Seq<u8> { if nl { enc(f) + crlf() } else { enc(f) } }
pub open spec fn ok_or_rejected(r: DecV, f: FrameV) -> bool { r == DecV::Ok(f) || !(r is Ok) }
pub open spec fn swap_at(s: Seq<u8>, i: int) -> Seq<u8> { s.update(i, s[i + 1]).update(i + 1, s[i]) }

/// strings that do not end in CR LF are their own core
proof fn lemma_no_strip(c: Seq<u8>)
    requires c.len() < 2 || c[c.len() - 1] != 10 || c[c.len() - 2] != 13
    ensures strip_crlf(c) == c
{}

/// a core + CRLF strips to the core
proof fn lemma_strip_appended(c: Seq<u8>)
    ensures strip_crlf(c + crlf()) == c
{
    let b = c + crlf();
    assert(b[b.len() - 2] == 13 && b[b.len() - 1] == 10);
    assert(b.subrange(0, b.len() - 2) =~= c);
}

proof fn lemma_invalid_len(b: Seq<u8>)
    requires strip_crlf(b).len() % 2 == 0 || strip_crlf(b).len() < 11
    ensures dec(b) is Invalid
{}

proof fn lemma_invalid_char(b: Seq<u8>, i: int)
    requires 0 <= i < strip_crlf(b).len(), (i == 0 && strip_crlf(b)[0] != 58) || (i >= 1 && !is_hex(strip_crlf(b)[i]))
    ensures dec(b) is Invalid
{}

proof fn lemma_upper_hex_val_injective(a: u8, b: u8)
    requires is_upper_hex(a), is_upper_hex(b), a != b
    ensures hex_val(a) != hex_val(b), is_hex(a), is_hex(b)
{}

/// One wire byte (index j) of a well-shaped string of the same length as enc(f) differs from enc(f)'s: never accepted.
proof fn lemma_one_byte_changed(f: FrameV, b2: Seq<u8>, j: int)
    requires
        f.data.len() <= 255, b2.len() == enc(f).len(), shape(b2), strip_crlf(b2) == b2,
        0 <= j < 5 + f.data.len(),
        forall|q: int| 0 <= q < 5 + f.data.len() && q != j ==> #[trigger] hex_byte(b2, 1 + 2 * q) == hex_byte(enc(f), 1 + 2 * q),
        hex_byte(b2, 1 + 2 * j) != hex_byte(enc(f), 1 + 2 * j),
    ensures !(dec(b2) is Ok)
{
    lemma_enc_chars(f);
    let b = enc(f);
    let p = payload_of(f).push(lrc(payload_of(f)));
    let k = f.data.len() as int;
    let v2 = hex_byte(b2, 1 + 2 * j);
    assert forall|q: int| 0 <= q < 5 + k implies #[trigger] hex_byte(b, 1 + 2 * q) == p[q] by {}
    assert(hex_byte(b, 1 + 2 * j) == p[j]);
    let kk = (b2.len() - 11) / 2;
    assert(kk == k);
    if j == 0 {
        assert(p[0] == k as u8);
        assert(hex_byte(b2, 1) == v2);
        assert(v2 as int != k);
    } else {
        assert(hex_byte(b2, 1 + 2 * 0int) == hex_byte(b, 1 + 2 * 0int));
        assert(hex_byte(b, 1 + 2 * 0int) == p[0]);
        assert(hex_byte(b2, 1) as int == kk);
        lemma_payload_of_view(b2);
        let f2 = view_of(b2);
        if j == 4 + k {
            assert forall|q: int| 0 <= q < 4 + k implies payload_of(f2)[q] == payload_of(f)[q] by {
                assert(payload_of(f2)[q] == hex_byte(b2, 1 + 2 * q));
                assert(hex_byte(b2, 1 + 2 * q) == hex_byte(b, 1 + 2 * q));
                assert(hex_byte(b, 1 + 2 * q) == p[q]);
            }
            assert(payload_of(f2) =~= payload_of(f));
            assert(b2.len() - 2 == 1 + 2 * (4 + k));
            assert(hex_byte(b2, b2.len() - 2) == v2);
            assert(p[4 + k] == lrc(payload_of(f)));
        } else {
            let s1 = payload_of(f);
            assert forall|q: int| 0 <= q < 4 + k implies payload_of(f2)[q] == s1.update(j, v2)[q] by {
                assert(payload_of(f2)[q] == hex_byte(b2, 1 + 2 * q));
                if q != j { assert(hex_byte(b2, 1 + 2 * q) == hex_byte(b, 1 + 2 * q)); assert(hex_byte(b, 1 + 2 * q) == p[q]); }
            }
            assert(payload_of(f2) =~= s1.update(j, v2));
            lemma_lrc_update(s1, j, v2);
            assert(s1[j] == p[j]);
            lemma_lrc_moves(lrc(s1), s1[j], v2);
            assert(hex_byte(b2, 1 + 2 * (4 + k)) == hex_byte(b, 1 + 2 * (4 + k)));
            assert(hex_byte(b, 1 + 2 * (4 + k)) == p[4 + k]);
            assert(b2.len() - 2 == 1 + 2 * (4 + k));
        }
    }
}

proof fn lemma_swap_two_bytes_bv(a: u8, h1: u8, l1: u8, h2: u8, l2: u8)
    requires h1 < 16, l1 < 16, h2 < 16, l2 < 16, l1 != h2
    ensures
        // both payload bytes: the checksum balance moves
        a.wrapping_add((h1 * 16 + l1) as u8).wrapping_sub((h1 * 16 + h2) as u8).wrapping_add((h2 * 16 + l2) as u8).wrapping_sub((l1 * 16 + l2) as u8) != a,
        // last payload byte and the checksum byte itself
        ((h2 * 16 + l2) as u8).wrapping_add((h1 * 16 + l1) as u8).wrapping_sub((h1 * 16 + h2) as u8) != (l1 * 16 + l2) as u8,
        (h1 * 16 + h2) as u8 != (h1 * 16 + l1) as u8,
        (l1 * 16 + l2) as u8 != (h2 * 16 + l2) as u8,
{
    assert(h1 < 16 && l1 < 16 && h2 < 16 && l2 < 16 && l1 != h2 ==>
        a.wrapping_add((h1 * 16 + l1) as u8).wrapping_sub((h1 * 16 + h2) as u8).wrapping_add((h2 * 16 + l2) as u8).wrapping_sub((l1 * 16 + l2) as u8) != a
        && ((h2 * 16 + l2) as u8).wrapping_add((h1 * 16 + l1) as u8).wrapping_sub((h1 * 16 + h2) as u8) != (l1 * 16 + l2) as u8
        && (h1 * 16 + h2) as u8 != (h1 * 16 + l1) as u8
        && (l1 * 16 + l2) as u8 != (h2 * 16 + l2) as u8) by(bit_vector);
}

proof fn lemma_lrc_update2(s: Seq<u8>, j: int, v1: u8, v2: u8)
    requires 0 <= j, j + 1 < s.len()
    ensures lrc(s.update(j, v1).update(j + 1, v2)) == lrc(s).wrapping_add(s[j]).wrapping_sub(v1).wrapping_add(s[j + 1]).wrapping_sub(v2)
{
    lemma_lrc_update(s, j, v1);
    let t = s.update(j, v1);
    lemma_lrc_update(t, j + 1, v2);
    assert(t[j + 1] == s[j + 1]);
}

/// facts about a swap at i >= 1 inside enc(f): still well shaped, not CRLF-terminated, same length
proof fn lemma_swap_shape(f: FrameV, i: int)
    requires f.data.len() <= 255, 1 <= i, i + 1 < enc(f).len()
    ensures
        shape(swap_at(enc(f), i)), strip_crlf(swap_at(enc(f), i)) == swap_at(enc(f), i),
        swap_at(enc(f), i).len() == enc(f).len(),
        swap_at(enc(f), i)[i] == enc(f)[i + 1], swap_at(enc(f), i)[i + 1] == enc(f)[i],
        forall|x: int| 0 <= x < enc(f).len() && x != i && x != i + 1 ==> #[trigger] swap_at(enc(f), i)[x] == enc(f)[x],
{
    lemma_enc_chars(f);
    let b = enc(f);
    let n = b.len() as int;
    let b2 = swap_at(b, i);
    assert(b2[n - 1] == b[n - 1] || b2[n - 1] == b[n - 2]);
    assert(b2[n - 1] != 10);
    lemma_no_strip(b2);
    assert forall|x: int| 1 <= x < b2.len() implies is_hex(#[trigger] b2[x]) by {
        if x == i { assert(b2[x] == b[i + 1]); } else if x == i + 1 { assert(b2[x] == b[i]); } else { assert(b2[x] == b[x]); }
    }
    assert(b2[0] == b[0]);
}

/// swap of the two characters of one wire byte
proof fn lemma_transposition_same_byte(f: FrameV, i: int)
    requires f.data.len() <= 255, 1 <= i, i + 1 < enc(f).len(), enc(f)[i] != enc(f)[i + 1], (i - 1) % 2 == 0
    ensures !(dec(swap_at(enc(f), i)) is Ok)
{
    lemma_enc_chars(f);
    lemma_enc_format(f);
    lemma_swap_shape(f, i);
    let b = enc(f);
    let k = f.data.len() as int;
    let b2 = swap_at(b, i);
    let j = (i - 1) / 2;
    assert(i == 1 + 2 * j);
    lemma_upper_hex_val_injective(b[i], b[i + 1]);
    lemma_hexval_lt16(b[i]); lemma_hexval_lt16(b[i + 1]);
    assert forall|q: int| 0 <= q < 5 + k && q != j implies #[trigger] hex_byte(b2, 1 + 2 * q) == hex_byte(b, 1 + 2 * q) by {
        assert(b2[1 + 2 * q] == b[1 + 2 * q]); assert(b2[1 + 2 * q + 1] == b[1 + 2 * q + 1]);
    }
    lemma_byte_change(hex_val(b[i]), hex_val(b[i + 1]), hex_val(b[i + 1]), hex_val(b[i]));
    assert(hex_byte(b2, 1 + 2 * j) != hex_byte(b, 1 + 2 * j));
    lemma_one_byte_changed(f, b2, j);
}

/// the wire bytes of a swap across two wire bytes j, j+1 (i = 2 + 2j)
proof fn lemma_swap_two_bytes_values(f: FrameV, i: int)
    requires f.data.len() <= 255, 2 <= i, i + 1 < enc(f).len(), (i - 1) % 2 == 1
    ensures ({
        let b = enc(f); let b2 = swap_at(b, i); let j = (i - 2) / 2;
        let p = payload_of(f).push(lrc(payload_of(f)));
        let h1 = hex_val(b[i - 1]); let l1 = hex_val(b[i]); let h2 = hex_val(b[i + 1]); let l2 = hex_val(b[i + 2]);
        &&& i == 2 + 2 * j && 0 <= j && j + 1 <= 4 + f.data.len()
        &&& h1 < 16 && l1 < 16 && h2 < 16 && l2 < 16
        &&& p[j] == (h1 * 16 + l1) as u8 && p[j + 1] == (h2 * 16 + l2) as u8
        &&& hex_byte(b2, 1 + 2 * j) == (h1 * 16 + h2) as u8 && hex_byte(b2, 1 + 2 * (j + 1)) == (l1 * 16 + l2) as u8
        &&& forall|q: int| 0 <= q < 5 + f.data.len() && q != j && q != j + 1 ==> #[trigger] hex_byte(b2, 1 + 2 * q) == p[q]
    })
{
    lemma_enc_chars(f);
    lemma_swap_shape(f, i);
    let b = enc(f); let b2 = swap_at(b, i); let j = (i - 2) / 2;
    let k = f.data.len() as int;
    let p = payload_of(f).push(lrc(payload_of(f)));
    assert(i == 2 + 2 * j);
    assert(is_hex(b[i - 1]) && is_hex(b[i]) && is_hex(b[i + 1]) && is_hex(b[i + 2]));
    lemma_hexval_lt16(b[i - 1]); lemma_hexval_lt16(b[i]); lemma_hexval_lt16(b[i + 1]); lemma_hexval_lt16(b[i + 2]);
    assert(hex_byte(b, 1 + 2 * j) == p[j]);
    assert(hex_byte(b, 1 + 2 * (j + 1)) == p[j + 1]);
    assert(b2[1 + 2 * j] == b[1 + 2 * j] && b2[1 + 2 * j + 1] == b[i + 1]);
    assert(b2[1 + 2 * (j + 1)] == b[i] && b2[1 + 2 * (j + 1) + 1] == b[i + 2]);
    assert forall|q: int| 0 <= q < 5 + k && q != j && q != j + 1 implies #[trigger] hex_byte(b2, 1 + 2 * q) == p[q] by {
        assert(b2[1 + 2 * q] == b[1 + 2 * q]); assert(b2[1 + 2 * q + 1] == b[1 + 2 * q + 1]);
        assert(hex_byte(b, 1 + 2 * q) == p[q]);
    }
}

/// swap of the low digit of wire byte j with the high digit of wire byte j + 1
proof fn lemma_transposition_two_bytes(f: FrameV, i: int)
    requires f.data.len() <= 255, 2 <= i, i + 1 < enc(f).len(), enc(f)[i] != enc(f)[i + 1], (i - 1) % 2 == 1
    ensures !(dec(swap_at(enc(f), i)) is Ok)
{
    lemma_enc_chars(f);
    lemma_enc_format(f);
    lemma_swap_shape(f, i);
    lemma_swap_two_bytes_values(f, i);
    let b = enc(f); let b2 = swap_at(b, i); let j = (i - 2) / 2;
    let k = f.data.len() as int;
    let p = payload_of(f).push(lrc(payload_of(f)));
    let h1 = hex_val(b[i - 1]); let l1 = hex_val(b[i]); let h2 = hex_val(b[i + 1]); let l2 = hex_val(b[i + 2]);
    lemma_upper_hex_val_injective(b[i], b[i + 1]);
    lemma_swap_two_bytes_bv(lrc(payload_of(f)), h1, l1, h2, l2);
    let v1 = hex_byte(b2, 1 + 2 * j);
    let v2 = hex_byte(b2, 1 + 2 * (j + 1));
    let kk = (b2.len() - 11) / 2;
    assert(kk == k);
    if j == 0 {
        assert(p[0] == k as u8);
        assert(hex_byte(b2, 1) == v1);
        assert(v1 as int != k);
        assert(dec(b2) is Mismatch);
    } else {
        assert(hex_byte(b2, 1 + 2 * 0int) == p[0]);
        assert(p[0] == k as u8);
        assert(hex_byte(b2, 1) as int == kk);
        lemma_payload_of_view(b2);
        let f2 = view_of(b2);
        let s1 = payload_of(f);
        assert(b2.len() - 2 == 1 + 2 * (4 + k));
        assert(p[4 + k] == lrc(s1));
        if j + 1 == 4 + k {
            assert forall|q: int| 0 <= q < 4 + k implies payload_of(f2)[q] == s1.update(j, v1)[q] by {
                assert(payload_of(f2)[q] == hex_byte(b2, 1 + 2 * q));
                if q != j { assert(hex_byte(b2, 1 + 2 * q) == p[q]); }
            }
            assert(payload_of(f2) =~= s1.update(j, v1));
            lemma_lrc_update(s1, j, v1);
            assert(s1[j] == p[j]);
            assert(hex_byte(b2, b2.len() - 2) == v2);
            assert(lrc(s1) == (h2 * 16 + l2) as u8);
            assert(dec(b2) is BadChecksum);
        } else {
            assert forall|q: int| 0 <= q < 4 + k implies payload_of(f2)[q] == s1.update(j, v1).update(j + 1, v2)[q] by {
                assert(payload_of(f2)[q] == hex_byte(b2, 1 + 2 * q));
                if q != j && q != j + 1 { assert(hex_byte(b2, 1 + 2 * q) == p[q]); }
            }
            assert(payload_of(f2) =~= s1.update(j, v1).update(j + 1, v2));
            lemma_lrc_update2(s1, j, v1, v2);
            assert(s1[j] == p[j] && s1[j + 1] == p[j + 1]);
            assert(hex_byte(b2, 1 + 2 * (4 + k)) == p[4 + k]);
            assert(dec(b2) is BadChecksum);
        }
    }
}

/// Adjacent transposition of unequal characters inside enc(f): never accepted.
pub proof fn lemma_transposition_core(f: FrameV, i: int)
    requires f.data.len() <= 255, 0 <= i, i + 1 < enc(f).len(), enc(f)[i] != enc(f)[i + 1]
    ensures !(dec(swap_at(enc(f), i)) is Ok), strip_crlf(swap_at(enc(f), i)) == swap_at(enc(f), i)
{
    lemma_enc_chars(f);
    let b = enc(f);
    let n = b.len() as int;
    let b2 = swap_at(b, i);
    if i == 0 {
        assert(b2[n - 1] == b[n - 1]);
        assert(b2[n - 1] != 10);
        lemma_no_strip(b2);
        assert(b2[0] == b[1]);
        assert(is_hex(b[1]));
        assert(b2[0] != 58);
        lemma_invalid_char(b2, 0);
    } else {
        lemma_swap_shape(f, i);
        if (i - 1) % 2 == 0 { lemma_transposition_same_byte(f, i); } else { lemma_transposition_two_bytes(f, i); }
    }
}

/// A proper prefix of enc(f) is never accepted.
pub proof fn lemma_prefix_core(f: FrameV, m: int)
    requires f.data.len() <= 255, 0 <= m < enc(f).len()
    ensures !(dec(enc(f).take(m)) is Ok), strip_crlf(enc(f).take(m)) == enc(f).take(m)
{
    lemma_enc_chars(f);
    lemma_enc_format(f);
    let b = enc(f);
    let c = b.take(m);
    let k = f.data.len() as int;
    if m >= 2 { assert(c[m - 1] == b[m - 1]); assert(c[m - 1] != 10); }
    lemma_no_strip(c);
    if m < 11 || m % 2 == 0 {
        lemma_invalid_len(c);
    } else {
        assert(c[0] == b[0]);
        assert forall|x: int| 1 <= x < c.len() implies is_hex(#[trigger] c[x]) by { assert(c[x] == b[x]); }
        assert(shape(c));
        assert(c[1] == b[1] && c[2] == b[2]);
        assert(hex_byte(c, 1) == hex_byte(b, 1));
        assert(hex_byte(b, 1) == k as u8);
        let kk = (m - 11) / 2;
        assert(kk < k);
        assert(dec(c) is Mismatch);
    }
}

// ------------------------------------------------------------------------------------------------------------
// The five statements of C02, for w = enc(f) and w = enc(f) + CRLF
// ------------------------------------------------------------------------------------------------------------

/// every position x every replacement byte
pub proof fn lemma_c02_substitution(f: FrameV, nl: bool, i: int, c2: u8)
    requires f.data.len() <= 255, 0 <= i < wire(f, nl).len(), c2 != wire(f, nl)[i]
    ensures ok_or_rejected(dec(wire(f, nl).update(i, c2)), f)
{
    lemma_enc_chars(f);
    let e = enc(f);
    let n = e.len() as int;
    if !nl {
        lemma_substitution(f, i, c2);
    } else {
        let w = e + crlf();
        let w2 = w.update(i, c2);
        if i < n {
            let e2 = e.update(i, c2);
            assert(w2 =~= e2 + crlf());
            lemma_strip_appended(e2);
            // e2 itself does not end in CR LF: one of its last two characters is still a hex digit of e
            assert(e2[n - 2] == e[n - 2] || e2[n - 1] == e[n - 1]);
            lemma_no_strip(e2);
            lemma_dec_strip(w2, e2);
            lemma_substitution(f, i, c2);
        } else if i == n {
            assert(w2[n] == c2 && w2[n + 1] == 10);
            assert(c2 != 13);
            lemma_no_strip(w2);
            lemma_invalid_char(w2, n + 1);
        } else {
            assert(i == n + 1);
            assert(w2[n] == 13 && w2[n + 1] == c2);
            lemma_no_strip(w2);
            lemma_invalid_char(w2, n);
        }
    }
}

/// every single deletion
pub proof fn lemma_c02_deletion(f: FrameV, nl: bool, i: int)
    requires f.data.len() <= 255, 0 <= i < wire(f, nl).len()
    ensures !(dec(wire(f, nl).remove(i)) is Ok)
{
    lemma_enc_chars(f);
    let e = enc(f);
    let n = e.len() as int;
    let w = wire(f, nl);
    let w2 = w.remove(i);
    if !nl {
        assert(w2.len() == n - 1);
        assert(w2[n - 2] == e[n - 1] || w2[n - 2] == e[n - 2]);
        assert(w2[n - 2] != 10);
        lemma_no_strip(w2);
        lemma_invalid_len(w2);
    } else if i < n {
        let e2 = e.remove(i);
        assert(w2 =~= e2 + crlf());
        lemma_strip_appended(e2);
        lemma_invalid_len(w2);
    } else if i == n {
        assert(w2 =~= e.push(10u8));
        assert(w2[n - 1] == e[n - 1]);
        assert(w2[n - 1] != 13);
        lemma_no_strip(w2);
        lemma_invalid_len(w2);
    } else {
        assert(w2 =~= e.push(13u8));
        lemma_no_strip(w2);
        lemma_invalid_len(w2);
    }
}

/// every single duplication
pub proof fn lemma_c02_duplication(f: FrameV, nl: bool, i: int)
    requires f.data.len() <= 255, 0 <= i < wire(f, nl).len()
    ensures !(dec(wire(f, nl).insert(i, wire(f, nl)[i])) is Ok)
{
    lemma_enc_chars(f);
    let e = enc(f);
    let n = e.len() as int;
    let w = wire(f, nl);
    let w2 = w.insert(i, w[i]);
    if !nl {
        assert(w2.len() == n + 1);
        assert(w2[n] == e[n - 1]);
        assert(w2[n] != 10);
        lemma_no_strip(w2);
        lemma_invalid_len(w2);
    } else if i < n {
        let e2 = e.insert(i, e[i]);
        assert(w[i] == e[i]);
        assert(w2 =~= e2 + crlf());
        lemma_strip_appended(e2);
        lemma_invalid_len(w2);
    } else if i == n {
        assert(w[i] == 13);
        assert(w2 =~= e.push(13u8) + crlf());
        lemma_strip_appended(e.push(13u8));
        lemma_invalid_len(w2);
    } else {
        assert(w[i] == 10);
        assert(w2 =~= (e + crlf()).push(10u8));
        assert(w2[n + 2] == 10 && w2[n + 1] == 10);
        lemma_no_strip(w2);
        lemma_invalid_len(w2);
    }
}

/// every adjacent transposition of unequal characters
pub proof fn lemma_c02_transposition(f: FrameV, nl: bool, i: int)
    requires f.data.len() <= 255, 0 <= i, i + 1 < wire(f, nl).len(), wire(f, nl)[i] != wire(f, nl)[i + 1]
    ensures !(dec(swap_at(wire(f, nl), i)) is Ok)
{
    lemma_enc_chars(f);
    let e = enc(f);
    let n = e.len() as int;
    let w = wire(f, nl);
    let w2 = swap_at(w, i);
    if !nl {
        lemma_transposition_core(f, i);
    } else if i + 1 < n {
        let e2 = swap_at(e, i);
        assert(w[i] == e[i] && w[i + 1] == e[i + 1]);
        assert(w2 =~= e2 + crlf());
        lemma_strip_appended(e2);
        lemma_transposition_core(f, i);
        lemma_dec_strip(w2, e2);
    } else if i + 1 == n {
        // last hex digit swapped with CR
        assert(w2[n - 1] == 13 && w2[n] == e[n - 1] && w2[n + 1] == 10);
        assert(w2[n] != 13);
        lemma_no_strip(w2);
        lemma_invalid_char(w2, n - 1);
    } else {
        assert(i == n);
        assert(w2[n] == 10 && w2[n + 1] == 13);
        lemma_no_strip(w2);
        lemma_invalid_char(w2, n);
    }
}

/// every proper prefix (truncation)
pub proof fn lemma_c02_truncation(f: FrameV, nl: bool, m: int)
    requires f.data.len() <= 255, 0 <= m < wire(f, nl).len()
    ensures ok_or_rejected(dec(wire(f, nl).take(m)), f)
{
    lemma_enc_chars(f);
    let e = enc(f);
    let n = e.len() as int;
    let w = wire(f, nl);
    if !nl {
        lemma_prefix_core(f, m);
    } else if m < n {
        assert(w.take(m) =~= e.take(m));
        lemma_prefix_core(f, m);
    } else if m == n {
        assert(w.take(m) =~= e);
        lemma_roundtrip(f);
    } else {
        let w2 = w.take(m);
        assert(w2 =~= e.push(13u8));
        lemma_no_strip(w2);
        lemma_invalid_char(w2, n);
    }
}

/// C02, second sentence: whatever is accepted has a matching declared length and a matching checksum.
pub proof fn lemma_accepted_is_consistent(b: Seq<u8>, f: FrameV)
    requires dec(b) == DecV::Ok(f)
    ensures
        shape(b),
        hex_byte(strip_crlf(b), 1) as int == (strip_crlf(b).len() - 11) / 2,
        f.data.len() == hex_byte(strip_crlf(b), 1) as int,
        lrc(payload_of(f)) == hex_byte(strip_crlf(b), strip_crlf(b).len() - 2),
{}
// ---- end codec_c02.rs ----
