// ---- c08_transfer.rs: C08 as a lemma over the two contracts, for pages of ANY size up to the 16-bit offset limit and
// page lists of ANY length: the message sequence C09 prescribes for the controller, fed to the machine `step` that the
// real virtual sign is proved equal to (process_message == step), stores exactly the pages sent.
pub open spec fn chunk_of(b: Seq<u8>, i: int) -> Seq<u8> {
    b.subrange(16 * i, if 16 * (i + 1) <= b.len() { 16 * (i + 1) } else { b.len() as int })
}
pub open spec fn n_chunks(b: Seq<u8>) -> int { (b.len() as int + 15) / 16 }
pub open spec fn wrap16(x: int) -> u16 { (x % 65536) as u16 }
/// the sign after the first k chunks of item b, sent the way C09 says: SendData(Offset(16 i), chunk i), i = 0, 1, ...
pub open spec fn after_chunks(s: SV, b: Seq<u8>, k: int) -> SV decreases k {
    if k <= 0 { s } else { step_data(after_chunks(s, b, k - 1), Offset(((k - 1) * 16) as u16), chunk_of(b, k - 1)) }
}
pub proof fn lemma_item_transfer(s: SV, b: Seq<u8>, k: int)
    requires s.state == State::PixelsInProgress, 1 <= k <= n_chunks(b), b.len() <= 65536,
    ensures ({
        let t = after_chunks(s, b, k);
        &&& t == (SV { pages: flushed(s), pending: b.take(if 16 * k <= b.len() { 16 * k } else { b.len() as int }), chunks: wrap16(s.chunks + k), ..s })
    }),
    decreases k,
{
    let t = after_chunks(s, b, k);
    let off = Offset(((k - 1) * 16) as u16);
    if k == 1 {
        assert(after_chunks(s, b, 0) == s);
        assert(chunk_of(b, 0) =~= b.take(if 16 <= b.len() { 16 } else { b.len() as int }));
    } else {
        lemma_item_transfer(s, b, k - 1);
        let p = after_chunks(s, b, k - 1);
        assert(0 < (k - 1) * 16 < 65536);
        assert(off.0 != 0);
        assert(p.pending + chunk_of(b, k - 1) =~= b.take(if 16 * k <= b.len() { 16 * k } else { b.len() as int }));
        assert((p.chunks as int + 1) % 65536 == (s.chunks + k) % 65536) by (nonlinear_arith)
            requires p.chunks as int == (s.chunks + (k - 1)) % 65536;
    }
}

/// the sign after the first j items of a transfer, each sent as its chunks, offsets restarting at 0 for every item
pub open spec fn after_items(s: SV, items: Seq<Seq<u8>>, j: int) -> SV decreases j {
    if j <= 0 { s } else { after_chunks(after_items(s, items, j - 1), items[j - 1], n_chunks(items[j - 1])) }
}
pub open spec fn total_chunks(items: Seq<Seq<u8>>, j: int) -> int decreases j {
    if j <= 0 { 0 } else { total_chunks(items, j - 1) + n_chunks(items[j - 1]) }
}
pub open spec fn images(w: u32, h: u32, items: Seq<Seq<u8>>, n: int) -> Seq<PV> {
    Seq::new(n as nat, |i: int| PV { w: w as int, h: h as int, bytes: items[i] })
}
pub open spec fn page_sized(w: u32, h: u32, items: Seq<Seq<u8>>) -> bool {
    forall|i: int| 0 <= i < items.len() ==> 0 < (#[trigger] items[i]).len() <= 65536 && items[i].len() == total_len(w as int, h as int)
}
pub proof fn lemma_total_chunks_nonneg(items: Seq<Seq<u8>>, j: int)
    ensures total_chunks(items, j) >= 0
    decreases j
{ if j > 0 { lemma_total_chunks_nonneg(items, j - 1); } }

pub proof fn lemma_pages_transfer(s: SV, items: Seq<Seq<u8>>, j: int)
    requires
        s.state == State::PixelsInProgress, s.pending.len() == 0, s.pages.len() == 0, s.width > 0, s.height > 0,
        page_sized(s.width, s.height, items), 1 <= j <= items.len(),
    ensures
        after_items(s, items, j) == (SV { pages: images(s.width, s.height, items, j - 1), pending: items[j - 1],
                                          chunks: wrap16(s.chunks + total_chunks(items, j)), ..s }),
    decreases j,
{
    let b = items[j - 1];
    assert(n_chunks(b) >= 1 && 16 * n_chunks(b) >= b.len());
    if j == 1 {
        assert(after_items(s, items, 0) == s);
        lemma_item_transfer(s, b, n_chunks(b));
        assert(flushed(s) =~= images(s.width, s.height, items, 0));
        assert(b.take(b.len() as int) =~= b);
        assert(total_chunks(items, 1) == n_chunks(b)) by { assert(total_chunks(items, 0) == 0); }
    } else {
        lemma_pages_transfer(s, items, j - 1);
        let p = after_items(s, items, j - 1);
        lemma_item_transfer(p, b, n_chunks(b));
        assert(p.pending == items[j - 2]);
        assert(flushed(p) =~= images(s.width, s.height, items, j - 1)) by {
            assert(p.pending.len() == total_len(p.width as int, p.height as int));
        }
        assert(b.take(b.len() as int) =~= b);
        lemma_total_chunks_nonneg(items, j - 1);
        assert((p.chunks as int + n_chunks(b)) % 65536 == (s.chunks + total_chunks(items, j)) % 65536) by (nonlinear_arith)
            requires p.chunks as int == (s.chunks + total_chunks(items, j - 1)) % 65536, total_chunks(items, j) == total_chunks(items, j - 1) + n_chunks(b);
    }
}

/// what every reachable state satisfies: outside a transfer (and outside the limbo of a pending reset) nothing is buffered or counted
pub open spec fn settled(s: SV) -> bool {
    (!receiving(s.state) && s.state != State::ReadyToReset) ==> s.chunks == 0 && s.pending.len() == 0
}
pub proof fn lemma_step_settled(s: SV, m: Message<'_>)
    requires settled(s)
    ensures settled(step(s, m).0), settled(blank(s))
{}

/// C08 over the two contracts: from ANY settled state in which the sign accepts pixels, the controller's transfer
/// (request - every page as chunks of 16 at offsets 0, 16, .. - count - completion) leaves the sign holding exactly the pages sent
pub proof fn lemma_c08_pages_arrive_bit_exact(s0: SV, items: Seq<Seq<u8>>)
    requires
        settled(s0), may_receive_pixels(s0.state), s0.width > 0, s0.height > 0,
        items.len() >= 1, page_sized(s0.width, s0.height, items), total_chunks(items, items.len() as int) < 65536,
    ensures ({
        let n = items.len() as int;
        let (s1, r1) = step(s0, Message::RequestOperation(s0.addr, Operation::ReceivePixels));
        let s2 = after_items(s1, items, n);
        let s3 = step_count(s2, ChunkCount(total_chunks(items, n) as u16));
        let (s4, r4) = step(s3, Message::PixelsComplete(s0.addr));
        &&& r1 == Some(Message::AckOperation(s0.addr, Operation::ReceivePixels))
        &&& s3.state == State::PixelsReceived
        &&& s3.pages =~= images(s0.width, s0.height, items, n)
        &&& s4.pages == s3.pages && r4 is None
        &&& s4.state == (if s0.flip == PageFlipStyle::Automatic { State::ShowingPages } else { State::PageLoaded })
        &&& settled(s4)
    }),
{
    let n = items.len() as int;
    let (s1, r1) = step(s0, Message::RequestOperation(s0.addr, Operation::ReceivePixels));
    assert(s1.pages.len() == 0 && s1.pending.len() == 0 && s1.chunks == 0);
    lemma_pages_transfer(s1, items, n);
    lemma_total_chunks_nonneg(items, n);
    let s2 = after_items(s1, items, n);
    assert(s2.pending == items[n - 1]);
    assert(flushed(s2) =~= images(s0.width, s0.height, items, n)) by {
        assert(s2.pending.len() == total_len(s2.width as int, s2.height as int));
    }
}

/// the preconditions of the lemma are satisfiable (no vacuous truth): a 90 x 7 sign in ConfigReceived, two 96-byte pages
pub proof fn c08_lemma_is_not_vacuous()
{
    let b1 = Seq::new(96, |i: int| 1u8);
    let b2 = Seq::new(96, |i: int| 2u8);
    let items = seq![b1, b2];
    let s0 = SV { addr: Address(3), flip: PageFlipStyle::Manual, state: State::ConfigReceived, chunks: 0, pending: Seq::<u8>::empty(),
                  pages: Seq::<PV>::empty(), width: 90, height: 7, ty: None };
    assert(ceil8(7) == 1);
    assert(total_len(90, 7) == 96);
    assert(n_chunks(b1) == 6 && n_chunks(b2) == 6);
    assert(total_chunks(items, 2) == 12) by {
        assert(total_chunks(items, 0) == 0);
        assert(total_chunks(items, 1) == total_chunks(items, 0) + n_chunks(items[0]));
        assert(total_chunks(items, 2) == total_chunks(items, 1) + n_chunks(items[1]));
    }
    assert(page_sized(90, 7, items));
    lemma_c08_pages_arrive_bit_exact(s0, items);
    let s1 = step(s0, Message::RequestOperation(s0.addr, Operation::ReceivePixels)).0;
    let s3 = step_count(after_items(s1, items, 2), ChunkCount(12u16));
    assert(s3.pages.len() == 2 && s3.pages[1].bytes == b2 && s3.pages[0].bytes == b1);
}
