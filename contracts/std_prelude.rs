// ---- std_prelude.rs: ASSUMED specifications for std items that vstd does not model. ----
// Every item below is part of the trusted base and is listed in the evidence of each check that
// includes this file (mechanical scan for assume_specification / axiom / external_body / uninterp).
global size_of usize == 8;   // 64-bit target (assumption A-usize64)

#[verifier::external_type_specification]
pub struct ExAssertKind(core::panicking::AssertKind);

// assert_eq!/assert_ne! failure path: an obligation (must be unreachable), like vstd's panic!.
pub assume_specification<T, U> [core::panicking::assert_failed] (_0: core::panicking::AssertKind, _1: &T, _2: &U, _3: std::option::Option<std::fmt::Arguments<'_>>) -> !
    where
    T: std::marker::MetaSized + std::fmt::Debug + ?Sized,
    U: std::marker::MetaSized + std::fmt::Debug + ?Sized,
    requires false;

// Cow<[u8]>: deref views the same bytes.
pub uninterp spec fn cow_deref<'a, 'b, B: ?Sized + ToOwned>(c: &'b Cow<'a, B>) -> &'b B;

pub assume_specification<'a, 'b, B> [ <Cow<'a, B> as Deref>::deref ] (c: &'b Cow<'a, B>) -> (r: &'b B)
    where B: ToOwned + ?Sized
    ensures r == cow_deref(c);

pub broadcast axiom fn axiom_cow_u8_view<'a>(c: &Cow<'a, [u8]>)
    ensures #[trigger] cow_deref(c)@ == c@;

// Cow::to_mut: the returned &mut Vec starts with the Cow's bytes (borrowed data is cloned first)
// and whatever is written through it is what the Cow holds afterwards.
pub uninterp spec fn cow_to_owned<'a, B: ?Sized + ToOwned>(c: Cow<'a, B>) -> <B as ToOwned>::Owned;
pub uninterp spec fn cow_from_owned<'a, B: ?Sized + ToOwned>(o: <B as ToOwned>::Owned) -> Cow<'a, B>;

pub assume_specification<'a, 'b, B> [ Cow::<'a, B>::to_mut ] (c: &'b mut Cow<'a, B>) -> (r: &'b mut <B as ToOwned>::Owned)
    where B: ToOwned + ?Sized
    ensures *r == cow_to_owned(*old(c)), *final(c) == cow_from_owned::<B>(*final(r));

pub broadcast axiom fn axiom_cow_to_owned_u8<'a>(c: Cow<'a, [u8]>)
    ensures #[trigger] cow_to_owned(c)@ == c@;
pub broadcast axiom fn axiom_cow_from_owned_u8<'a>(v: Vec<u8>)
    ensures #[trigger] cow_from_owned::<'a, [u8]>(v)@ == v@;

// <[T]>::fill: every element becomes the value, length unchanged.
pub assume_specification<T> [ <[T]>::fill ] (s: &mut [T], v: T)
    where T: std::clone::Clone
    ensures final(s)@.len() == old(s)@.len(), forall|i: int| 0 <= i < old(s)@.len() ==> (#[trigger] final(s)@[i]) == v;

// Vec<T>[range] (IndexMut): same contract as vstd's slice IndexMut, applied to the vector's contents.
pub uninterp spec fn vec_as_slice<T, A: std::alloc::Allocator>(v: &Vec<T, A>) -> &[T];
pub broadcast axiom fn axiom_vec_as_slice<T, A: std::alloc::Allocator>(v: &Vec<T, A>)
    ensures #[trigger] vec_as_slice(v)@ == v@;

pub assume_specification<T, I: SliceIndex<[T]>, A: std::alloc::Allocator> [ <Vec<T, A> as IndexMut<I>>::index_mut ] (v: &mut Vec<T, A>, r: I) -> (s: &mut <Vec<T, A> as Index<I>>::Output)
    ensures r.index_mut_postcondition(vec_as_slice(old(v)), vec_as_slice(final(v)), s, final(s));
// T: Into<Cow<[u8]>> (Vec<u8>, &[u8], &Vec<u8>, Cow): the conversion is a function of its argument
// (vstd: `into` ensures obeys_into_spec() ==> r == into_spec(t)); into_cow_view names the bytes it yields.
pub open spec fn into_cow_view<'a, T: Into<Cow<'a, [u8]>>>(t: T) -> Seq<u8> {
    <T as vstd::std_specs::convert::IntoSpec<Cow<'a, [u8]>>>::into_spec(t)@
}
pub axiom fn axiom_into_cow_functional<'a, T: Into<Cow<'a, [u8]>>>()
    ensures <T as vstd::std_specs::convert::IntoSpec<Cow<'a, [u8]>>>::obeys_into_spec();
// From<Vec<u8>> for Cow<[u8]> is Cow::Owned(v); From<&[u8]> is Cow::Borrowed(s): same bytes.
pub axiom fn axiom_vec_into_cow<'a>(v: Vec<u8>)
    ensures into_cow_view::<'a, Vec<u8>>(v) == v@;
pub axiom fn axiom_slice_into_cow<'a>(s: &'a [u8])
    ensures into_cow_view::<'a, &'a [u8]>(s) == s@;
// ---- end std_prelude.rs ----
