// ---- io_standins.rs: ASSUMED contracts of the std::io items used by Frame::read / Frame::write. ----
// Verus has no model of std::io.  The real functions are extracted verbatim and resolve `Read`, `Write`, `BufReader`
// to the stand-ins below, whose contracts state what std documents (A-std-io):
//   * Write::write_all(buf): Ok  => exactly buf was appended to what the sink received (short writes and
//     ErrorKind::Interrupted are retried inside write_all); Err => a proper prefix of buf was appended.
//   * BufReader::with_capacity(1, r).read_until(d, v): consumes from r exactly the bytes up to and including the first
//     d (or everything, at end of stream) and appends them to v, however r fragments its reads and however often it
//     reports Interrupted; with a capacity other than 1 the reader may have consumed more (nothing is promised).
//     Err => at most that line was consumed.
// These contracts are checked against the REAL std code, bounded, by the Kani harnesses c15_* (kani/core_frame.rs)
// and by the native `stream` domain; here they are assumptions and are listed as such in the evidence.
pub trait Write {
    /// every byte the sink has accepted so far
    spec fn sink(&self) -> Seq<u8>;
    /// whatever else the object is besides a sink (for a two-way device: its input side) - writing does not touch it
    spec fn beside_sink(&self) -> Seq<u8>;
    fn write_all(&mut self, buf: &[u8]) -> (r: Result<(), IoErrorStandIn>)
        ensures
            r is Ok ==> final(self).sink() == old(self).sink() + buf@,
            r is Err ==> delivered_prefix(old(self).sink(), final(self).sink(), buf@),
            final(self).beside_sink() == old(self).beside_sink();
    /// one write call: the sink takes SOME of the bytes (possibly none, possibly not all)
    fn write(&mut self, buf: &[u8]) -> (r: Result<usize, IoErrorStandIn>)
        ensures
            r is Ok ==> r->Ok_0 <= buf@.len() && final(self).sink() == old(self).sink() + buf@.take(r->Ok_0 as int),
            r is Err ==> final(self).sink() == old(self).sink(),
            final(self).beside_sink() == old(self).beside_sink();
    fn flush(&mut self) -> (r: Result<(), IoErrorStandIn>)
        ensures final(self).sink() == old(self).sink(), final(self).beside_sink() == old(self).beside_sink();
}
pub closed spec fn delivered_prefix(before: Seq<u8>, after: Seq<u8>, buf: Seq<u8>) -> bool {
    exists|k: int| 0 <= k < buf.len() && after == before + buf.take(k)
}

pub trait Read {
    /// every byte the stream will still deliver (prophetic view of the underlying device)
    spec fn rest(&self) -> Seq<u8>;
    /// whatever else the object is besides a source (for a two-way device: its output side) - reading does not touch it
    spec fn beside_source(&self) -> Seq<u8>;
}

/// length of the first line of s: up to and including the first d, or all of s when it holds no d
pub open spec fn line_len(s: Seq<u8>, d: u8) -> nat decreases s.len() {
    if s.len() == 0 { 0 } else if s[0] == d { 1 } else { 1 + line_len(s.skip(1), d) }
}
pub open spec fn first_line(s: Seq<u8>) -> Seq<u8> { s.take(line_len(s, 10u8) as int) }
pub open spec fn after_first_line(s: Seq<u8>) -> Seq<u8> { s.skip(line_len(s, 10u8) as int) }
pub closed spec fn consumed_at_most_line(before: Seq<u8>, after: Seq<u8>, d: u8) -> bool {
    exists|k: int| 0 <= k <= line_len(before, d) && after == before.skip(k)
}

/// stand-in for std::io::BufReader<&mut &mut R> (the only instantiation Frame::read makes)
pub struct BufReader<'a, 'b, R> { pub inner: &'a mut &'b mut R, pub cap: usize }
impl<'a, 'b, R: Read> BufReader<'a, 'b, R> {
    #[verifier::external_body]
    pub fn with_capacity(cap: usize, inner: &'a mut &'b mut R) -> (r: Self)
        ensures r.cap == cap, r.inner == inner, *final(r.inner) == *final(inner),
    { unimplemented!() }

    #[verifier::external_body]
    pub fn read_until(&mut self, d: u8, buf: &mut Vec<u8>) -> (r: Result<usize, IoErrorStandIn>)
        ensures
            final(self).cap == old(self).cap,
            // the BufReader keeps reading from the same underlying reader
            *final(*final(self).inner) == *final(*old(self).inner),
            *final(final(self).inner) == *final(old(self).inner),
            (**final(self).inner).beside_source() == (**old(self).inner).beside_source(),
            r is Ok && old(self).cap == 1 ==> {
                let s = (**old(self).inner).rest();
                &&& (**final(self).inner).rest() == s.skip(line_len(s, d) as int)
                &&& final(buf)@ == old(buf)@ + s.take(line_len(s, d) as int)
                &&& r->Ok_0 == line_len(s, d)
            },
            r is Err && old(self).cap == 1 ==> consumed_at_most_line((**old(self).inner).rest(), (**final(self).inner).rest(), d),
    { unimplemented!() }
}

// thiserror's `#[from]` on FrameError::Io { source: std::io::Error }: From<io::Error> wraps the error in that variant.
impl From<IoErrorStandIn> for FrameError {
    fn from(e: IoErrorStandIn) -> (r: FrameError) { FrameError::Io { source: e } }
}
impl vstd::std_specs::convert::FromSpecImpl<IoErrorStandIn> for FrameError {
    open spec fn obeys_from_spec() -> bool { true }
    open spec fn from_spec(e: IoErrorStandIn) -> FrameError { FrameError::Io { source: e } }
}
// core's reflexive `impl<T> From<T> for T` is the identity (`?` on a Result whose error type already matches).
pub assume_specification<T> [ <T as From<T>>::from ] (t: T) -> (r: T)
    ensures r == t;
// ---- end io_standins.rs ----
