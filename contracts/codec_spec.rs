// ---- codec_spec.rs: specification of the Intel-HEX frame codec (written from the property statements C01-C03)
// and lemmas over it (no assume / admit). ----
pub struct FrameV { pub addr: u16, pub typ: u8, pub data: Seq<u8> }
pub enum DecV { Ok(FrameV), Invalid, Mismatch { declared: int, actual: int }, BadChecksum { provided: u8, computed: u8 } }

pub open spec fn hex_digit(n: u8) -> u8 { if n < 10 { (48 + n) as u8 } else { (55 + n) as u8 } }
pub open spec fn is_hex(c: u8) -> bool { (48 <= c <= 57) || (65 <= c <= 70) || (97 <= c <= 102) }
pub open spec fn hex_val(c: u8) -> u8 { if 48 <= c <= 57 { (c - 48) as u8 } else if 65 <= c <= 70 { (c - 55) as u8 } else { (c - 87) as u8 } }
pub open spec fn hex_byte(c: Seq<u8>, i: int) -> u8 { (hex_val(c[i]) * 16 + hex_val(c[i + 1])) as u8 }

pub open spec fn hex_pairs(p: Seq<u8>) -> Seq<u8>
    decreases p.len()
{
    if p.len() == 0 { Seq::<u8>::empty() } else { hex_pairs(p.drop_last()).push(hex_digit(p.last() >> 4)).push(hex_digit(p.last() & 0x0F)) }
}
pub open spec fn lrc(s: Seq<u8>) -> u8 decreases s.len() { if s.len() == 0 { 0u8 } else { lrc(s.drop_last()).wrapping_sub(s.last()) } }

pub open spec fn payload_of(f: FrameV) -> Seq<u8> {
    seq![f.data.len() as u8, (f.addr >> 8) as u8, f.addr as u8, f.typ] + f.data
}
pub open spec fn enc(f: FrameV) -> Seq<u8> { seq![58u8] + hex_pairs(payload_of(f).push(lrc(payload_of(f)))) }

pub open spec fn strip_crlf(b: Seq<u8>) -> Seq<u8> {
    if b.len() >= 2 && b[b.len() - 2] == 13 && b[b.len() - 1] == 10 { b.subrange(0, b.len() - 2) } else { b }
}
pub open spec fn shape(b: Seq<u8>) -> bool {
    let c = strip_crlf(b);
    c.len() >= 11 && c.len() % 2 == 1 && c[0] == 58 && (forall|i: int| 1 <= i < c.len() ==> is_hex(#[trigger] c[i]))
}
pub open spec fn dec(b: Seq<u8>) -> DecV {
    let c = strip_crlf(b);
    if !shape(b) { DecV::Invalid } else {
        let declared = hex_byte(c, 1);
        let addr = (hex_byte(c, 3) as u16 * 256 + hex_byte(c, 5) as u16) as u16;
        let typ = hex_byte(c, 7);
        let k = (c.len() - 11) / 2;
        let data = Seq::new(k as nat, |i: int| hex_byte(c, 9 + 2 * i));
        let provided = hex_byte(c, c.len() - 2);
        let f = FrameV { addr, typ, data };
        if k != declared as int { DecV::Mismatch { declared: declared as int, actual: k } }
        else if lrc(payload_of(f)) != provided { DecV::BadChecksum { provided, computed: lrc(payload_of(f)) } }
        else { DecV::Ok(f) }
    }
}

proof fn lemma_digit(n: u8)
    requires n < 16
    ensures is_hex(hex_digit(n)), hex_val(hex_digit(n)) == n, hex_digit(n) != 13, hex_digit(n) != 10
{}

proof fn lemma_nibbles(b: u8)
    ensures (b >> 4) < 16, (b & 0x0F) < 16, ((b >> 4) * 16 + (b & 0x0F)) as u8 == b, (b >> 4) * 16 + (b & 0x0F) <= 255
{
    assert((b >> 4) < 16 && (b & 0x0F) < 16 && ((b >> 4) * 16 + (b & 0x0F)) as u8 == b && (b >> 4) * 16 + (b & 0x0F) <= 255) by(bit_vector);
}

proof fn lemma_pairs(p: Seq<u8>)
    ensures hex_pairs(p).len() == 2 * p.len(),
        forall|i: int| 0 <= i < p.len() ==> #[trigger] hex_pairs(p)[2 * i] == hex_digit(p[i] >> 4) && hex_pairs(p)[2 * i + 1] == hex_digit(p[i] & 0x0F),
    decreases p.len()
{
    if p.len() > 0 {
        lemma_pairs(p.drop_last());
        let q = p.drop_last();
        assert forall|i: int| 0 <= i < p.len() implies #[trigger] hex_pairs(p)[2 * i] == hex_digit(p[i] >> 4) && hex_pairs(p)[2 * i + 1] == hex_digit(p[i] & 0x0F) by {
            if i < q.len() { assert(hex_pairs(q)[2 * i] == hex_digit(q[i] >> 4)); assert(q[i] == p[i]); }
        }
    }
}

proof fn lemma_enc_chars(f: FrameV)
    requires f.data.len() <= 255
    ensures
        enc(f).len() == 11 + 2 * f.data.len(),
        enc(f)[0] == 58,
        forall|i: int| 1 <= i < enc(f).len() ==> is_hex(#[trigger] enc(f)[i]) && enc(f)[i] != 10 && enc(f)[i] != 13,
        forall|j: int| 0 <= j < 5 + f.data.len() ==> #[trigger] hex_byte(enc(f), 1 + 2 * j) == payload_of(f).push(lrc(payload_of(f)))[j],
{
    let p = payload_of(f).push(lrc(payload_of(f)));
    lemma_pairs(p);
    let h = hex_pairs(p);
    assert(enc(f) == seq![58u8] + h);
    assert forall|i: int| 1 <= i < enc(f).len() implies is_hex(#[trigger] enc(f)[i]) && enc(f)[i] != 10 && enc(f)[i] != 13 by {
        let m = i - 1;
        let j = m / 2;
        lemma_nibbles(p[j]);
        assert(enc(f)[i] == h[m]);
        if m % 2 == 0 { assert(m == 2 * j); assert(h[2 * j] == hex_digit(p[j] >> 4)); lemma_digit(p[j] >> 4); }
        else { assert(m == 2 * j + 1); assert(h[2 * j] == hex_digit(p[j] >> 4)); assert(h[2 * j + 1] == hex_digit(p[j] & 0x0F)); lemma_digit(p[j] & 0x0F); }
    }
    assert forall|j: int| 0 <= j < 5 + f.data.len() implies #[trigger] hex_byte(enc(f), 1 + 2 * j) == p[j] by {
        lemma_nibbles(p[j]);
        assert(enc(f)[1 + 2 * j] == h[2 * j]);
        assert(enc(f)[1 + 2 * j + 1] == h[2 * j + 1]);
        lemma_digit(p[j] >> 4); lemma_digit(p[j] & 0x0F);
    }
}

proof fn lemma_addr(a: u16)
    ensures (((a >> 8) as u8) as u16 * 256 + ((a as u8) as u16)) as u16 == a
{
    assert((((a >> 8) as u8) as u16 * 256 + ((a as u8) as u16)) as u16 == a) by(bit_vector);
}

pub proof fn lemma_roundtrip(f: FrameV)
    requires f.data.len() <= 255
    ensures dec(enc(f)) == DecV::Ok(f)
{
    lemma_enc_chars(f);
    let b = enc(f);
    let p = payload_of(f).push(lrc(payload_of(f)));
    assert(strip_crlf(b) == b);
    assert(shape(b));
    assert(hex_byte(b, 1 + 2 * 0int) == p[0]);            // j = 0
    assert(hex_byte(b, 1 + 2 * 1int) == p[1]);
    assert(hex_byte(b, 1 + 2 * 2int) == p[2]);
    assert(hex_byte(b, 1 + 2 * 3int) == p[3]);
    lemma_addr(f.addr);
    let k = (b.len() - 11) / 2;
    assert(k == f.data.len());
    let data = Seq::new(k as nat, |i: int| hex_byte(b, 9 + 2 * i));
    assert forall|i: int| 0 <= i < k implies data[i] == f.data[i] by {
        assert(hex_byte(b, 1 + 2 * (4 + i)) == p[4 + i]);
    }
    assert(data =~= f.data);
    assert(hex_byte(b, 1 + 2 * (4 + k)) == p[4 + k]);
    assert(b.len() - 2 == 1 + 2 * (4 + k));
    assert(p[4 + k] == lrc(payload_of(f)));
}


// ---------------- C02 probe: single-character substitution
proof fn lemma_lrc_update(s: Seq<u8>, j: int, v: u8)
    requires 0 <= j < s.len()
    ensures lrc(s.update(j, v)) == lrc(s).wrapping_add(s[j]).wrapping_sub(v)
    decreases s.len()
{
    let t = s.update(j, v);
    if j == s.len() - 1 {
        assert(t.drop_last() == s.drop_last());
        let a = lrc(s.drop_last()); let x = s[j];
        assert(a.wrapping_sub(x).wrapping_add(x).wrapping_sub(v) == a.wrapping_sub(v)) by(bit_vector);
    } else {
        lemma_lrc_update(s.drop_last(), j, v);
        assert(t.drop_last() == s.drop_last().update(j, v));
        assert(t.last() == s.last());
        let a = lrc(s.drop_last()); let x = s[j]; let l = s.last();
        assert(a.wrapping_add(x).wrapping_sub(v).wrapping_sub(l) == a.wrapping_sub(l).wrapping_add(x).wrapping_sub(v)) by(bit_vector);
    }
}

proof fn lemma_byte_change(h1: u8, l1: u8, h2: u8, l2: u8)
    requires h1 < 16, l1 < 16, h2 < 16, l2 < 16, h1 != h2 || l1 != l2
    ensures (h1 * 16 + l1) as u8 != (h2 * 16 + l2) as u8
{
    assert(h1 < 16 && l1 < 16 && h2 < 16 && l2 < 16 && (h1 != h2 || l1 != l2) ==> (h1 * 16 + l1) as u8 != (h2 * 16 + l2) as u8) by(bit_vector);
}


proof fn lemma_addr_parts(x: u8, y: u8)
    ensures (((x as u16 * 256 + y as u16) as u16) >> 8) as u8 == x, ((x as u16 * 256 + y as u16) as u16) as u8 == y
{
    assert((((x as u16 * 256 + y as u16) as u16) >> 8) as u8 == x && ((x as u16 * 256 + y as u16) as u16) as u8 == y) by(bit_vector);
}
proof fn lemma_lrc_moves(a: u8, x: u8, y: u8)
    requires x != y
    ensures a.wrapping_add(x).wrapping_sub(y) != a
{
    assert(x != y ==> a.wrapping_add(x).wrapping_sub(y) != a) by(bit_vector);
}

// the frame view that dec() reconstructs from a shaped string c
pub open spec fn view_of(c: Seq<u8>) -> FrameV {
    FrameV { addr: (hex_byte(c, 3) as u16 * 256 + hex_byte(c, 5) as u16) as u16, typ: hex_byte(c, 7),
             data: Seq::new(((c.len() - 11) / 2) as nat, |i: int| hex_byte(c, 9 + 2 * i)) }
}
// payload_of(view_of(c)) is the wire bytes 0..4+k of c, provided the declared length byte matches
proof fn lemma_payload_of_view(c: Seq<u8>)
    requires c.len() >= 11, c.len() % 2 == 1, hex_byte(c, 1) as int == (c.len() - 11) / 2
    ensures payload_of(view_of(c)).len() == 4 + (c.len() - 11) / 2,
        forall|q: int| 0 <= q < 4 + (c.len() - 11) / 2 ==> #[trigger] payload_of(view_of(c))[q] == hex_byte(c, 1 + 2 * q)
{
    let f = view_of(c);
    lemma_addr_parts(hex_byte(c, 3), hex_byte(c, 5));
    assert forall|q: int| 0 <= q < 4 + (c.len() - 11) / 2 implies #[trigger] payload_of(f)[q] == hex_byte(c, 1 + 2 * q) by {
        if q == 0 { assert(1 + 2 * q == 1); }
        else if q == 1 { assert(1 + 2 * q == 3); }
        else if q == 2 { assert(1 + 2 * q == 5); }
        else if q == 3 { assert(1 + 2 * q == 7); }
        else { assert(payload_of(f)[q] == f.data[q - 4]); assert(9 + 2 * (q - 4) == 1 + 2 * q); }
    }
}

proof fn lemma_hexval_lt16(c: u8) requires is_hex(c) ensures hex_val(c) < 16 {}

//@ifndef io
pub proof fn lemma_substitution(f: FrameV, i: int, c2: u8)
    requires f.data.len() <= 255, 0 <= i < enc(f).len(), c2 != enc(f)[i]
    ensures dec(enc(f).update(i, c2)) == DecV::Ok(f) || !(dec(enc(f).update(i, c2)) is Ok)
{
    lemma_enc_chars(f);
    lemma_roundtrip(f);
    let b = enc(f);
    let b2 = b.update(i, c2);
    let p = payload_of(f).push(lrc(payload_of(f)));
    let k = f.data.len() as int;
    // no CRLF can appear by one substitution: positions len-2 and len-1 are both hex digits in b
    assert(b2[b2.len() - 2] == b[b.len() - 2] || b2[b2.len() - 1] == b[b.len() - 1]);
    assert(strip_crlf(b2) == b2);
    if i == 0 {
        assert(b2[0] != 58);
        assert(!shape(b2));
    } else if !is_hex(c2) {
        assert(b2[i] == c2);
        assert(!shape(b2));
    } else {
        assert forall|x: int| 1 <= x < b2.len() implies is_hex(#[trigger] b2[x]) by { if x != i { assert(b2[x] == b[x]); } }
        assert(shape(b2));
        let j = (i - 1) / 2;            // affected wire byte
        // all other wire bytes unchanged
        assert forall|q: int| 0 <= q < 5 + k && q != j implies hex_byte(b2, 1 + 2 * q) == #[trigger] p[q] by {
            assert(hex_byte(b, 1 + 2 * q) == p[q]);
            assert(b2[1 + 2 * q] == b[1 + 2 * q]); assert(b2[1 + 2 * q + 1] == b[1 + 2 * q + 1]);
        }
        let v2 = hex_byte(b2, 1 + 2 * j);
        assert(hex_byte(b, 1 + 2 * j) == p[j]);
        lemma_hexval_lt16(b[1 + 2 * j]); lemma_hexval_lt16(b[1 + 2 * j + 1]);
        lemma_hexval_lt16(b2[1 + 2 * j]); lemma_hexval_lt16(b2[1 + 2 * j + 1]);
        if hex_val(c2) == hex_val(b[i]) {
            // letter-case change only: same value everywhere -> same decode
            assert(v2 == p[j]);
            assert forall|q: int| 0 <= q < 5 + k implies #[trigger] hex_byte(b2, 1 + 2 * q) == hex_byte(b, 1 + 2 * q) by {
                if q != j { assert(hex_byte(b2, 1 + 2 * q) == p[q]); assert(hex_byte(b, 1 + 2 * q) == p[q]); }
            }
            assert(hex_byte(b2, 1 + 2 * 0int) == hex_byte(b, 1 + 2 * 0int));
            assert(hex_byte(b2, 1 + 2 * 1int) == hex_byte(b, 1 + 2 * 1int));
            assert(hex_byte(b2, 1 + 2 * 2int) == hex_byte(b, 1 + 2 * 2int));
            assert(hex_byte(b2, 1 + 2 * 3int) == hex_byte(b, 1 + 2 * 3int));
            assert(hex_byte(b2, 1 + 2 * (4 + k)) == hex_byte(b, 1 + 2 * (4 + k)));
            let d1 = Seq::new(k as nat, |x: int| hex_byte(b, 9 + 2 * x));
            let d2 = Seq::new(k as nat, |x: int| hex_byte(b2, 9 + 2 * x));
            assert forall|x: int| 0 <= x < k implies d1[x] == d2[x] by {
                assert(hex_byte(b2, 1 + 2 * (4 + x)) == hex_byte(b, 1 + 2 * (4 + x)));
            }
            assert(d1 =~= d2);
            assert(dec(b2) == dec(b));
        } else {
            if i == 1 + 2 * j { lemma_byte_change(hex_val(b[i]), hex_val(b[i + 1]), hex_val(c2), hex_val(b[i + 1])); }
            else { assert(i == 2 + 2 * j); lemma_byte_change(hex_val(b[i - 1]), hex_val(b[i]), hex_val(b[i - 1]), hex_val(c2)); }
            assert(v2 != p[j]);
            // decode of b2 is not Ok at all
            let kk = (b2.len() - 11) / 2;
            assert(kk == k);
            if j == 0 {
                assert(hex_byte(b2, 1 + 2 * 0int) == v2);
                assert(p[0] == k as u8);
                assert(v2 as int != k);
                assert(dec(b2) is Mismatch);
            } else {
                assert(hex_byte(b2, 1 + 2 * 0int) == p[0]);
                assert(hex_byte(b2, 1) as int == kk);
                lemma_payload_of_view(b2);
                lemma_payload_of_view(b);
                assert(hex_byte(b, 1 + 2 * 0int) == p[0]);
                let f2 = view_of(b2);
                if j == 4 + k {
                    // checksum byte damaged: payload bytes all unchanged
                    assert forall|q: int| 0 <= q < 4 + k implies payload_of(f2)[q] == payload_of(f)[q] by {
                        assert(payload_of(f2)[q] == hex_byte(b2, 1 + 2 * q)); assert(hex_byte(b2, 1 + 2 * q) == p[q]);
                    }
                    assert(payload_of(f2) =~= payload_of(f));
                    assert(hex_byte(b2, b2.len() - 2) == v2);
                    assert(p[4 + k] == lrc(payload_of(f)));
                    assert(dec(b2) is BadChecksum);
                } else {
                    // one payload byte damaged
                    let s1 = payload_of(f);
                    assert forall|q: int| 0 <= q < 4 + k implies payload_of(f2)[q] == s1.update(j, v2)[q] by {
                        assert(payload_of(f2)[q] == hex_byte(b2, 1 + 2 * q));
                        if q != j { assert(hex_byte(b2, 1 + 2 * q) == p[q]); }
                    }
                    assert(payload_of(f2) =~= s1.update(j, v2));
                    lemma_lrc_update(s1, j, v2);
                    assert(s1[j] == p[j]);
                    lemma_lrc_moves(lrc(s1), s1[j], v2);
                    assert(hex_byte(b2, 1 + 2 * (4 + k)) == p[4 + k]);
                    assert(b2.len() - 2 == 1 + 2 * (4 + k));
                    assert(dec(b2) is BadChecksum);
                }
            }
        }
    }
}
//@endif

// ---- end codec_spec.rs ----
// ---- additional lemmas for C01 / C03 ----
pub open spec fn is_upper_hex(c: u8) -> bool { (48 <= c <= 57) || (65 <= c <= 70) }
pub open spec fn upper(c: u8) -> u8 { if 97 <= c <= 102 { (c - 32) as u8 } else { c } }
pub open spec fn wsum(s: Seq<u8>) -> u8 decreases s.len() { if s.len() == 0 { 0u8 } else { wsum(s.drop_last()).wrapping_add(s.last()) } }

proof fn lemma_lrc_is_neg_sum(s: Seq<u8>)
    ensures lrc(s) == 0u8.wrapping_sub(wsum(s))
    decreases s.len()
{
    if s.len() > 0 {
        lemma_lrc_is_neg_sum(s.drop_last());
        let a = wsum(s.drop_last()); let x = s.last();
        assert(0u8.wrapping_sub(a).wrapping_sub(x) == 0u8.wrapping_sub(a.wrapping_add(x))) by(bit_vector);
    }
}

/// C01: "a checksum that makes all encoded bytes sum to 0 mod 256"
pub proof fn lemma_sum_zero(s: Seq<u8>)
    ensures wsum(s.push(lrc(s))) == 0u8
{
    lemma_lrc_is_neg_sum(s);
    let t = s.push(lrc(s));
    assert(t.drop_last() =~= s);
    let a = wsum(s);
    assert(a.wrapping_add(0u8.wrapping_sub(a)) == 0u8) by(bit_vector);
}

proof fn lemma_digit_upper(n: u8)
    requires n < 16
    ensures is_upper_hex(hex_digit(n))
{}

/// C01: the documented shape of an encoding: ':' then upper-case hex pairs for length, address (big-endian), type,
/// data, checksum — and the bytes those pairs denote sum to 0 mod 256.
pub proof fn lemma_enc_format(f: FrameV)
    requires f.data.len() <= 255
    ensures
        enc(f).len() == 11 + 2 * f.data.len(),
        enc(f)[0] == 58,
        forall|i: int| 1 <= i < enc(f).len() ==> is_upper_hex(#[trigger] enc(f)[i]),
        hex_byte(enc(f), 1) == f.data.len() as u8,
        hex_byte(enc(f), 3) == (f.addr >> 8) as u8,
        hex_byte(enc(f), 5) == f.addr as u8,
        hex_byte(enc(f), 7) == f.typ,
        forall|i: int| 0 <= i < f.data.len() ==> #[trigger] hex_byte(enc(f), 9 + 2 * i) == f.data[i],
        hex_byte(enc(f), 9 + 2 * (f.data.len() as int)) == lrc(payload_of(f)),
        wsum(payload_of(f).push(lrc(payload_of(f)))) == 0u8,
{
    lemma_enc_chars(f);
    lemma_sum_zero(payload_of(f));
    let p = payload_of(f).push(lrc(payload_of(f)));
    lemma_pairs(p);
    let h = hex_pairs(p);
    assert(enc(f) == seq![58u8] + h);
    assert forall|i: int| 1 <= i < enc(f).len() implies is_upper_hex(#[trigger] enc(f)[i]) by {
        let m = i - 1; let j = m / 2;
        lemma_nibbles(p[j]);
        assert(enc(f)[i] == h[m]);
        if m % 2 == 0 { assert(m == 2 * j); assert(h[2 * j] == hex_digit(p[j] >> 4)); lemma_digit_upper(p[j] >> 4); }
        else { assert(m == 2 * j + 1); assert(h[2 * j] == hex_digit(p[j] >> 4)); assert(h[2 * j + 1] == hex_digit(p[j] & 0x0F)); lemma_digit_upper(p[j] & 0x0F); }
    }
    assert(hex_byte(enc(f), 1 + 2 * 0int) == p[0]);
    assert(hex_byte(enc(f), 1 + 2 * 1int) == p[1]);
    assert(hex_byte(enc(f), 1 + 2 * 2int) == p[2]);
    assert(hex_byte(enc(f), 1 + 2 * 3int) == p[3]);
    assert forall|i: int| 0 <= i < f.data.len() implies #[trigger] hex_byte(enc(f), 9 + 2 * i) == f.data[i] by {
        assert(hex_byte(enc(f), 1 + 2 * (4 + i)) == p[4 + i]);
        assert(p[4 + i] == f.data[i]);
    }
    let k = f.data.len() as int;
    assert(hex_byte(enc(f), 1 + 2 * (4 + k)) == p[4 + k]);
}

/// dec only looks at the string without its optional CRLF.
pub proof fn lemma_dec_strip(b1: Seq<u8>, b2: Seq<u8>)
    requires strip_crlf(b1) == strip_crlf(b2)
    ensures dec(b1) == dec(b2), shape(b1) == shape(b2)
{}

/// C01: decoding the CRLF-terminated encoding gives back the frame as well.
pub proof fn lemma_roundtrip_nl(f: FrameV)
    requires f.data.len() <= 255
    ensures dec(enc(f) + seq![13u8, 10u8]) == DecV::Ok(f)
{
    lemma_enc_chars(f);
    lemma_roundtrip(f);
    let e = enc(f);
    let b = e + seq![13u8, 10u8];
    assert(b[b.len() - 2] == 13 && b[b.len() - 1] == 10);
    assert(strip_crlf(b) =~= e);
    assert(strip_crlf(e) == e);
    lemma_dec_strip(b, e);
}

proof fn lemma_pairs_at(p: Seq<u8>, i: int)
    requires 0 <= i < p.len()
    ensures hex_pairs(p).len() == 2 * p.len(), hex_pairs(p)[2 * i] == hex_digit(p[i] >> 4), hex_pairs(p)[2 * i + 1] == hex_digit(p[i] & 0x0F)
{
    lemma_pairs(p);
}

proof fn lemma_byte_nibbles(h: u8, l: u8)
    requires h < 16, l < 16
    ensures ((h * 16 + l) as u8) >> 4 == h, ((h * 16 + l) as u8) & 0x0F == l
{
    assert(h < 16 && l < 16 ==> ((h * 16 + l) as u8) >> 4 == h && ((h * 16 + l) as u8) & 0x0F == l) by(bit_vector);
}

proof fn lemma_digit_of_val(c: u8)
    requires is_hex(c)
    ensures hex_digit(hex_val(c)) == upper(c)
{}

/// C03: re-encoding an accepted string reproduces it up to hex-digit case and the optional terminator.
pub proof fn lemma_reencode(b: Seq<u8>, f: FrameV)
    requires dec(b) == DecV::Ok(f)
    ensures
        enc(f).len() == strip_crlf(b).len(),
        forall|i: int| 0 <= i < enc(f).len() ==> #[trigger] enc(f)[i] == upper(strip_crlf(b)[i]),
        f.data.len() <= 255,
{
    let c = strip_crlf(b);
    let n = c.len() as int;
    let k = (n - 11) / 2;
    assert(shape(b));
    assert(f == view_of(c));
    assert(hex_byte(c, 1) as int == k);
    lemma_payload_of_view(c);
    let p = payload_of(f).push(lrc(payload_of(f)));
    assert(p.len() == 5 + k);
    lemma_pairs(p);
    let h = hex_pairs(p);
    assert(enc(f) == seq![58u8] + h);
    assert(lrc(payload_of(f)) == hex_byte(c, n - 2));
    assert forall|q: int| 0 <= q < 5 + k implies #[trigger] p[q] == hex_byte(c, 1 + 2 * q) by {
        if q < 4 + k { assert(payload_of(f)[q] == hex_byte(c, 1 + 2 * q)); } else { assert(1 + 2 * q == n - 2); }
    }
    assert forall|i: int| 0 <= i < enc(f).len() implies #[trigger] enc(f)[i] == upper(c[i]) by {
        if i == 0 { assert(c[0] == 58); } else {
            let m = i - 1; let q = m / 2;
            assert(h.len() == 2 * (5 + k));
            assert(0 <= m < 2 * (5 + k));
            assert(0 <= q < 5 + k);
            assert(enc(f)[i] == h[m]);
            assert(p[q] == hex_byte(c, 1 + 2 * q));
            assert(is_hex(c[1 + 2 * q]) && is_hex(c[1 + 2 * q + 1]));
            lemma_hexval_lt16(c[1 + 2 * q]); lemma_hexval_lt16(c[1 + 2 * q + 1]);
            lemma_byte_nibbles(hex_val(c[1 + 2 * q]), hex_val(c[1 + 2 * q + 1]));
            lemma_pairs_at(p, q);
            assert(h[2 * q] == hex_digit(p[q] >> 4) && h[2 * q + 1] == hex_digit(p[q] & 0x0F));
            if m % 2 == 0 { assert(m == 2 * q); lemma_digit_of_val(c[i]); }
            else { assert(m == 2 * q + 1); lemma_digit_of_val(c[i]); }
        }
    }
}
// ---- end additional lemmas ----
