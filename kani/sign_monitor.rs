// ---- sign_monitor.rs: the documented controller-side protocol as a phase machine (the MONITOR of C09/C10/C11) and the
// nondeterministic bus built on it. Pure Rust over the public API of flipdot; included textually into kani/sign.rs
// (//@include) and into the native oracle witness/src/controller.rs (include!), where `kani::any` / `kani::assume` are
// provided by a small shim. ----
/// zero-sized bus error (no allocation when boxed)
#[derive(Debug)]
struct BusFailure;
impl std::fmt::Display for BusFailure {
    fn fmt(&self, f: &mut std::fmt::Formatter<'_>) -> std::fmt::Result {
        f.write_str("bus failure")
    }
}
impl Error for BusFailure {}


const STATES: [State; 13] = [
    State::Unconfigured,
    State::ConfigInProgress,
    State::ConfigReceived,
    State::ConfigFailed,
    State::PixelsInProgress,
    State::PixelsReceived,
    State::PixelsFailed,
    State::PageLoaded,
    State::PageLoadInProgress,
    State::PageShown,
    State::PageShowInProgress,
    State::ShowingPages,
    State::ReadyToReset,
];
const S_UNCONF: usize = 0;
const S_CFG_RECV: usize = 2;
const S_CFG_FAIL: usize = 3;
const S_PIX_RECV: usize = 5;
const S_PIX_FAIL: usize = 6;
const S_LOADED: usize = 7;
const S_LOAD_PROG: usize = 8;
const S_SHOWN: usize = 9;
const S_SHOW_PROG: usize = 10;
const S_SHOWING: usize = 11;
const S_READY_RESET: usize = 12;
const OPS: [Operation; 6] = [
    Operation::ReceiveConfig,
    Operation::ReceivePixels,
    Operation::ShowLoadedPage,
    Operation::LoadNextPage,
    Operation::StartReset,
    Operation::FinishReset,
];
const O_RECV_CFG: usize = 0;
const O_RECV_PIX: usize = 1;
const O_SHOW: usize = 2;
const O_LOAD_NEXT: usize = 3;
const O_START_RESET: usize = 4;
const O_FINISH_RESET: usize = 5;
const TYPES: [SignType; 11] = [
    SignType::Max3000Front112x16,
    SignType::Max3000Front98x16,
    SignType::Max3000Side90x7,
    SignType::Max3000Rear30x10,
    SignType::Max3000Rear23x10,
    SignType::Max3000Dash30x7,
    SignType::HorizonFront160x16,
    SignType::HorizonFront140x16,
    SignType::HorizonSide96x8,
    SignType::HorizonRear48x16,
    SignType::HorizonDash40x12,
];

fn state_idx(s: State) -> usize {
    match s {
        State::Unconfigured => 0,
        State::ConfigInProgress => 1,
        State::ConfigReceived => 2,
        State::ConfigFailed => 3,
        State::PixelsInProgress => 4,
        State::PixelsReceived => 5,
        State::PixelsFailed => 6,
        State::PageLoaded => 7,
        State::PageLoadInProgress => 8,
        State::PageShown => 9,
        State::PageShowInProgress => 10,
        State::ShowingPages => 11,
        State::ReadyToReset => 12,
        #[allow(unreachable_patterns)]
        _ => 13,
    }
}
fn op_idx(o: Operation) -> usize {
    match o {
        Operation::ReceiveConfig => 0,
        Operation::ReceivePixels => 1,
        Operation::ShowLoadedPage => 2,
        Operation::LoadNextPage => 3,
        Operation::StartReset => 4,
        Operation::FinishReset => 5,
        #[allow(unreachable_patterns)]
        _ => 6,
    }
}

// ---- abstract outgoing message
#[derive(Copy, Clone, PartialEq, Eq)]
enum Out {
    Hello(u16),
    Query(u16),
    Req(u16, usize),
    Data(u16, *const u8, usize),
    Count(u16),
    PixelsComplete(u16),
    Goodbye(u16),
    Other,
}
fn out_of(m: &Message<'_>) -> Out {
    match m {
        Message::Hello(a) => Out::Hello(a.0),
        Message::QueryState(a) => Out::Query(a.0),
        Message::RequestOperation(a, o) => Out::Req(a.0, op_idx(*o)),
        Message::SendData(off, d) => Out::Data(off.0, d.get().as_ptr(), d.get().len()),
        Message::DataChunksSent(c) => Out::Count(c.0),
        Message::PixelsComplete(a) => Out::PixelsComplete(a.0),
        Message::Goodbye(a) => Out::Goodbye(a.0),
        _ => Out::Other,
    }
}

// ---- nondeterministic reply
#[derive(Copy, Clone, PartialEq, Eq)]
enum Rep {
    None,
    Report(u16, usize),
    Ack(u16, usize),
    OtherMsg(u16), // an unrelated message (a Goodbye from some address)
    UnknownFrame(u16, u8),
    Err,
}
fn any_reply() -> Rep {
    let k: u8 = kani::any();
    let a: u16 = kani::any();
    let si: usize = kani::any();
    let oi: usize = kani::any();
    kani::assume(si < 13 && oi < 6);
    match k {
        0 => Rep::None,
        1 => Rep::Report(a, si),
        2 => Rep::Ack(a, oi),
        3 => Rep::OtherMsg(a),
        4 => Rep::UnknownFrame(a, kani::any()),
        _ => Rep::Err,
    }
}
fn reply_value<'a>(r: Rep) -> Result<Option<Message<'a>>, Box<dyn Error + Send + Sync>> {
    match r {
        Rep::None => Ok(None),
        Rep::Report(a, si) => Ok(Some(Message::ReportState(Address(a), STATES[si]))),
        Rep::Ack(a, oi) => Ok(Some(Message::AckOperation(Address(a), OPS[oi]))),
        Rep::OtherMsg(a) => Ok(Some(Message::Goodbye(Address(a)))),
        Rep::UnknownFrame(a, t) => Ok(Some(Message::Unknown(Frame::new(Address(a), MsgType(t), Data::from(&[]))))),
        Rep::Err => Err(Box::new(BusFailure)),
    }
}

// ---- the documented protocol as a phase machine (monitor)
#[derive(Copy, Clone, PartialEq, Eq)]
enum Phase {
    IfNeededHello,
    Hello0,
    StartReset,
    HelloReadyReset,
    FinishReset,
    HelloUnconf,
    ReqRecv,
    Data,
    Count,
    QueryResult,
    PixelsComplete,
    QueryStyle,
    Goodbye,
    SwitchQuery,
    SwitchReq,
    Done,
}
#[derive(Copy, Clone, PartialEq, Eq)]
enum Outcome {
    Pending,
    Ok,
    OkAutomatic,
    Unexpected,
    BusError,
}
#[derive(Copy, Clone, PartialEq, Eq)]
enum Kind {
    Configure,
    SendPages,
    ShutDown,
    Switch,
    EnsureUnconfigured, // unit: Sign::ensure_unconfigured alone
    SendDataConfig,     // unit: Sign::send_data with the configuration item
    SendDataPages,      // unit: Sign::send_data with page items
    SendPagesTail,      // unit: the part of send_pages after send_data (PixelsComplete, QueryState)
    Transport,          // units: send_message / send_message_expect_response: no protocol, one exchange, any message
}

const MAX_ITEMS: usize = 3;
const LOG: usize = 40;

struct Bus {
    own: u16,
    kind: Kind,
    // transfer description
    recv_op: usize,
    success: usize,
    failure: usize,
    n_items: usize,
    items: [(*const u8, usize); MAX_ITEMS],
    config: [u8; 16],
    // switch_page description
    sw_target: usize,
    sw_trigger: usize,
    sw_op: usize,
    max_polls: usize,
    polls: usize,
    // attempts before this one are 'clean failed attempts': their replies are forced to the allowed ones
    free_attempt: u32,
    // monitor state
    phase: Phase,
    attempt: u32,
    item: usize,
    chunk: usize,
    chunks_sent: u16,
    outcome: Outcome,
    // C11 log invariants (independent of the monitor)
    dead: bool,
    sent_after_dead: bool,
    foreign_address_sent: bool,
    recv_requests: u32,
    last_exchange_was_own_failed_report: bool,
    retry_without_failed_report: bool,
    last_query_reply_own_success: bool,
    n_msgs: usize,
    max_msgs: usize,
    last_out: Out,
    last_rep: Rep,
}

impl Bus {
    fn new(own: u16, kind: Kind, phase: Phase) -> Self {
        Bus {
            own,
            kind,
            recv_op: O_RECV_CFG,
            success: S_CFG_RECV,
            failure: S_CFG_FAIL,
            n_items: 0,
            items: [(core::ptr::null(), 0); MAX_ITEMS],
            config: [0; 16],
            sw_target: 0,
            sw_trigger: 0,
            sw_op: 0,
            max_polls: 0,
            polls: 0,
            free_attempt: 1,
            phase,
            attempt: 1,
            item: 0,
            chunk: 0,
            chunks_sent: 0,
            outcome: Outcome::Pending,
            dead: false,
            sent_after_dead: false,
            foreign_address_sent: false,
            recv_requests: 0,
            last_exchange_was_own_failed_report: false,
            retry_without_failed_report: false,
            last_query_reply_own_success: false,
            n_msgs: 0,
            max_msgs: LOG,
            last_out: Out::Other,
            last_rep: Rep::None,
        }
    }

    fn finish(&mut self, o: Outcome) {
        self.outcome = o;
        self.phase = Phase::Done;
    }

    /// the sign is known to be unconfigured: the transfer follows (or, for the ensure_unconfigured unit, the unit is done)
    fn unconfigured_reached(&mut self) {
        if self.kind == Kind::EnsureUnconfigured {
            self.finish(Outcome::Ok)
        } else {
            self.phase = Phase::ReqRecv
        }
    }

    /// the one reply that lets a clean failed attempt proceed in the current phase
    fn forced_reply(&self) -> Rep {
        match self.phase {
            Phase::ReqRecv => Rep::Ack(self.own, self.recv_op),
            Phase::QueryResult => Rep::Report(self.own, self.failure),
            _ => Rep::None,
        }
    }

    /// first data phase of an attempt, or straight to the count when there is nothing to send
    fn start_data(&mut self) {
        self.item = 0;
        self.chunk = 0;
        self.chunks_sent = 0;
        self.skip_empty_items();
    }
    fn skip_empty_items(&mut self) {
        while self.item < self.n_items && self.chunk * 16 >= self.items[self.item].1 {
            self.item += 1;
            self.chunk = 0;
        }
        self.phase = if self.item < self.n_items { Phase::Data } else { Phase::Count };
    }

    /// C10/C09: the message the protocol prescribes in the current phase
    fn check_message(&self, m: &Message<'_>) {
        let got = out_of(m);
        let own = self.own;
        match self.phase {
            Phase::IfNeededHello | Phase::Hello0 | Phase::HelloReadyReset | Phase::HelloUnconf => assert!(got == Out::Hello(own)),
            Phase::StartReset => assert!(got == Out::Req(own, O_START_RESET)),
            Phase::FinishReset => assert!(got == Out::Req(own, O_FINISH_RESET)),
            Phase::ReqRecv => assert!(got == Out::Req(own, self.recv_op)),
            Phase::Data => {
                let (base, len) = self.items[self.item];
                let off = self.chunk * 16;
                let n = if len - off < 16 { len - off } else { 16 };
                match got {
                    Out::Data(o, p, l) => {
                        assert!(o as usize == off); // offsets 0, 16, 32, ... within the item
                        assert!(l == n); // at most 16 bytes, all of the rest of the item
                        if self.kind == Kind::Configure || self.kind == Kind::SendDataConfig {
                            // the configuration sent is exactly the 16-byte block of the sign type
                            if let Message::SendData(_, d) = m {
                                let sent: [u8; 16] = match <[u8; 16]>::try_from(&d.get()[..]) {
                                    Ok(a) => a,
                                    Err(_) => panic!("configuration chunk is not 16 bytes"),
                                };
                                assert!(u128::from_le_bytes(sent) == u128::from_le_bytes(self.config));
                            }
                        } else {
                            assert!(p == base.wrapping_add(off)); // the very bytes of the page, in order
                        }
                    }
                    _ => panic!("protocol: a data chunk is due"),
                }
            }
            Phase::Count => assert!(got == Out::Count(self.chunks_sent)),
            Phase::QueryResult | Phase::QueryStyle | Phase::SwitchQuery => assert!(got == Out::Query(own)),
            Phase::PixelsComplete => assert!(got == Out::PixelsComplete(own)),
            Phase::Goodbye => assert!(got == Out::Goodbye(own)),
            Phase::SwitchReq => assert!(got == Out::Req(own, self.sw_op)),
            Phase::Done => panic!("protocol: nothing further may be sent"),
        }
    }

    /// C10: next phase / outcome for the reply just produced
    fn advance(&mut self, r: Rep) {
        if r == Rep::Err {
            self.finish(Outcome::BusError);
            return;
        }
        let own = self.own;
        match self.phase {
            Phase::IfNeededHello => {
                let ready = match r {
                    Rep::Report(a, s) if a == own => s == S_CFG_RECV || s == S_SHOWING || s == S_LOADED || s == S_SHOW_PROG || s == S_SHOWN || s == S_LOAD_PROG,
                    _ => false,
                };
                if ready {
                    self.finish(Outcome::Ok);
                } else {
                    self.phase = Phase::Hello0;
                }
            }
            Phase::Hello0 => {
                match r {
                    Rep::Report(a, s) if a == own && s == S_UNCONF => self.unconfigured_reached(),
                    Rep::Report(a, s) if a == own && s == S_READY_RESET => self.phase = Phase::FinishReset,
                    _ => self.phase = Phase::StartReset,
                }
            }
            Phase::StartReset => {
                if r == Rep::Ack(own, O_START_RESET) {
                    self.phase = Phase::HelloReadyReset
                } else {
                    self.finish(Outcome::Unexpected)
                }
            }
            Phase::HelloReadyReset => {
                if r == Rep::Report(own, S_READY_RESET) {
                    self.phase = Phase::FinishReset
                } else {
                    self.finish(Outcome::Unexpected)
                }
            }
            Phase::FinishReset => {
                if r == Rep::Ack(own, O_FINISH_RESET) {
                    self.phase = Phase::HelloUnconf
                } else {
                    self.finish(Outcome::Unexpected)
                }
            }
            Phase::HelloUnconf => {
                if r == Rep::Report(own, S_UNCONF) {
                    self.unconfigured_reached()
                } else {
                    self.finish(Outcome::Unexpected)
                }
            }
            Phase::ReqRecv => {
                if r == Rep::Ack(own, self.recv_op) {
                    self.start_data()
                } else {
                    self.finish(Outcome::Unexpected)
                }
            }
            Phase::Data => {
                if r == Rep::None {
                    self.chunks_sent += 1;
                    self.chunk += 1;
                    self.skip_empty_items();
                } else {
                    self.finish(Outcome::Unexpected)
                }
            }
            Phase::Count => {
                if r == Rep::None {
                    self.phase = Phase::QueryResult
                } else {
                    self.finish(Outcome::Unexpected)
                }
            }
            Phase::QueryResult => {
                if r == Rep::Report(own, self.failure) && self.attempt < 3 {
                    self.attempt += 1;
                    self.phase = Phase::ReqRecv;
                } else if r == Rep::Report(own, self.success) {
                    if self.kind == Kind::SendPages {
                        self.phase = Phase::PixelsComplete
                    } else {
                        self.finish(Outcome::Ok)
                    }
                } else {
                    self.finish(Outcome::Unexpected)
                }
            }
            Phase::PixelsComplete => {
                if r == Rep::None {
                    self.phase = Phase::QueryStyle
                } else {
                    self.finish(Outcome::Unexpected)
                }
            }
            Phase::QueryStyle => {
                if r == Rep::Report(own, S_SHOWING) {
                    self.finish(Outcome::OkAutomatic)
                } else {
                    self.finish(Outcome::Ok)
                }
            }
            Phase::Goodbye => {
                if r == Rep::None {
                    self.finish(Outcome::Ok)
                } else {
                    self.finish(Outcome::Unexpected)
                }
            }
            Phase::SwitchQuery => match r {
                Rep::Report(a, s) if a == own && (s == S_SHOWING || s == self.sw_target) => self.finish(Outcome::Ok),
                Rep::Report(a, s) if a == own && s == self.sw_trigger => self.phase = Phase::SwitchReq,
                Rep::Report(a, s) if a == own && (s == S_LOAD_PROG || s == S_SHOW_PROG) => self.polls += 1,
                _ => self.finish(Outcome::Unexpected),
            },
            Phase::SwitchReq => {
                if r == Rep::Ack(own, self.sw_op) {
                    self.phase = Phase::SwitchQuery
                } else {
                    self.finish(Outcome::Unexpected)
                }
            }
            Phase::Done => {}
        }
    }

    /// C11: log invariants, written without reference to the monitor's phase
    fn log_invariants(&mut self, m: &Message<'_>, r: Rep) {
        let own = self.own;
        if self.dead {
            self.sent_after_dead = true;
        }
        let got = out_of(m);
        match got {
            Out::Hello(a) | Out::Query(a) | Out::Req(a, _) | Out::PixelsComplete(a) | Out::Goodbye(a) => {
                if a != own {
                    self.foreign_address_sent = true;
                }
            }
            _ => {}
        }
        if let Out::Req(_, o) = got {
            if o == O_RECV_CFG || o == O_RECV_PIX {
                self.recv_requests += 1;
                if self.recv_requests > 1 && !self.last_exchange_was_own_failed_report {
                    self.retry_without_failed_report = true;
                }
            }
        }
        // replies the protocol never allows, whatever the context
        let disallowed = match got {
            Out::Data(..) | Out::Count(_) | Out::PixelsComplete(_) | Out::Goodbye(_) => r != Rep::None,
            Out::Req(_, o) => r != Rep::Ack(own, o),
            _ => false,
        };
        if r == Rep::Err || disallowed {
            self.dead = true;
        }
        self.last_exchange_was_own_failed_report = matches!(got, Out::Query(_)) && (r == Rep::Report(own, S_CFG_FAIL) || r == Rep::Report(own, S_PIX_FAIL));
        if let Out::Query(_) = got {
            self.last_query_reply_own_success = r == Rep::Report(own, self.success);
        }
    }
}

impl Bus {
    /// one exchange: check the outgoing message against the protocol, pick a reply, advance monitor and log invariants
    fn exchange(&mut self, message: &Message<'_>) -> Rep {
        // attempts before `free_attempt` are clean failed attempts with the one allowed reply each (see run_send_data)
        let r = if self.kind != Kind::Transport && self.attempt < self.free_attempt { self.forced_reply() } else { any_reply() };
        self.exchange_with(message, r)
    }

    /// one exchange with the reply chosen by the caller: check the outgoing message against the protocol, advance
    /// the monitor, update the log invariants
    fn exchange_with(&mut self, message: &Message<'_>, r: Rep) -> Rep {
        self.n_msgs += 1;
        assert!(self.n_msgs <= self.max_msgs); // conversations are bounded by the protocol itself
        self.last_out = out_of(message);
        if self.kind == Kind::Transport {
            self.last_rep = r;
            return r;
        }
        self.check_message(message);
        if (self.kind == Kind::SendDataConfig || self.kind == Kind::SendDataPages)
            && self.phase == Phase::QueryResult
            && self.attempt == self.free_attempt
            && self.free_attempt < 3
        {
            // scripts in which attempt A is itself a clean failed attempt belong to the harness for A + 1
            kani::assume(r != Rep::Report(self.own, self.failure));
        }
        if self.kind == Kind::Switch && self.n_msgs >= self.max_polls {
            // bounded stand-in for the unbounded loop of switch_page (it polls while the sign reports an in-progress
            // state and re-requests while it reports the trigger state): after max_polls exchanges the sign must
            // answer with something that ends the operation
            kani::assume(!matches!(r, Rep::Report(a, s) if a == self.own && (s == S_LOAD_PROG || s == S_SHOW_PROG || s == self.sw_trigger)));
            if self.phase == Phase::SwitchReq {
                kani::assume(r != Rep::Ack(self.own, self.sw_op));
            }
        }
        self.log_invariants(message, r);
        self.advance(r);
        self.last_rep = r;
        r
    }
}

impl SignBus for Bus {
    fn process_message<'a>(&mut self, message: Message<'_>) -> Result<Option<Message<'a>>, Box<dyn Error + Send + Sync>> {
        let r = self.exchange(&message);
        core::mem::forget(message);
        reply_value(r)
    }
}

// ---- end sign_monitor.rs
