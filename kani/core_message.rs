// Overlaid as a child module of flipdot_core::message. C04 (Frame -> Message -> Frame identity and the
// protocol code table) and the message leg of C05 (Message -> Frame -> Message identity).
// All harnesses are loop-free over the full input domain: any address, any type, any data of length 0..=255.
#![allow(dead_code, unused_imports, unused_variables, unused_results)]
use super::*;

/// The protocol table, transcribed independently of both conversion functions (a third copy).
pub(crate) const STATE_CODES: [(u8, State); 13] = [
    (0x0F, State::Unconfigured),
    (0x0D, State::ConfigInProgress),
    (0x07, State::ConfigReceived),
    (0x0C, State::ConfigFailed),
    (0x03, State::PixelsInProgress),
    (0x01, State::PixelsReceived),
    (0x0B, State::PixelsFailed),
    (0x10, State::PageLoaded),
    (0x13, State::PageLoadInProgress),
    (0x12, State::PageShown),
    (0x11, State::PageShowInProgress),
    (0x00, State::ShowingPages),
    (0x08, State::ReadyToReset),
];
/// (request code, acknowledgement code, operation)
pub(crate) const OP_CODES: [(u8, u8, Operation); 6] = [
    (0xA1, 0x95, Operation::ReceiveConfig),
    (0xA2, 0x91, Operation::ReceivePixels),
    (0xA9, 0x96, Operation::ShowLoadedPage),
    (0xAA, 0x97, Operation::LoadNextPage),
    (0xA6, 0x93, Operation::StartReset),
    (0xA7, 0x94, Operation::FinishReset),
];

// exhaustive matches: a new State / Operation variant is a compile error here (=> UNDECIDED, not an alarm)
pub(crate) fn state_index(s: State) -> usize {
    match s {
        State::Unconfigured => 0,
        State::ConfigInProgress => 1,
        State::ConfigReceived => 2,
        State::ConfigFailed => 3,
        State::PixelsInProgress => 4,
        State::PixelsReceived => 5,
        State::PixelsFailed => 6,
        State::PageLoaded => 7,
        State::PageLoadInProgress => 8,
        State::PageShown => 9,
        State::PageShowInProgress => 10,
        State::ShowingPages => 11,
        State::ReadyToReset => 12,
    }
}
pub(crate) fn op_index(o: Operation) -> usize {
    match o {
        Operation::ReceiveConfig => 0,
        Operation::ReceivePixels => 1,
        Operation::ShowLoadedPage => 2,
        Operation::LoadNextPage => 3,
        Operation::StartReset => 4,
        Operation::FinishReset => 5,
    }
}

/// Abstract, Copy view of a message (data abstracted to pointer + length).
#[derive(Copy, Clone, PartialEq, Eq)]
pub(crate) enum Abs {
    SendData(u16, *const u8, usize),
    Chunks(u16),
    Hello(u16),
    Query(u16),
    Goodbye(u16),
    Report(u16, usize),
    Req(u16, usize),
    Ack(u16, usize),
    PixelsComplete(u16),
    Unknown(u16, u8, *const u8, usize),
}

pub(crate) fn abs_of(m: &Message<'_>) -> Abs {
    match m {
        Message::SendData(Offset(o), d) => Abs::SendData(*o, d.get().as_ptr(), d.get().len()),
        Message::DataChunksSent(ChunkCount(c)) => Abs::Chunks(*c),
        Message::Hello(Address(a)) => Abs::Hello(*a),
        Message::QueryState(Address(a)) => Abs::Query(*a),
        Message::Goodbye(Address(a)) => Abs::Goodbye(*a),
        Message::ReportState(Address(a), s) => Abs::Report(*a, state_index(*s)),
        Message::RequestOperation(Address(a), o) => Abs::Req(*a, op_index(*o)),
        Message::AckOperation(Address(a), o) => Abs::Ack(*a, op_index(*o)),
        Message::PixelsComplete(Address(a)) => Abs::PixelsComplete(*a),
        Message::Unknown(f) => Abs::Unknown(f.address().0, f.message_type().0, f.data().as_ptr(), f.data().len()),
    }
}

/// The table of the property statement as a function of (type, length, first byte).
fn spec_classify(addr: u16, ty: u8, n: usize, b0: u8, ptr: *const u8) -> Abs {
    if ty == 0 {
        return Abs::SendData(addr, ptr, n); // data chunk: type 0 (any length)
    }
    if ty == 1 && n == 0 {
        return Abs::Chunks(addr); // chunk count: type 1, empty
    }
    if n == 1 {
        match (ty, b0) {
            (2, 0xFF) => return Abs::Hello(addr),
            (2, 0x00) => return Abs::Query(addr),
            (2, 0x55) => return Abs::Goodbye(addr),
            (6, 0x00) => return Abs::PixelsComplete(addr),
            _ => {}
        }
        let mut i = 0;
        while i < 13 {
            if ty == 4 && b0 == STATE_CODES[i].0 {
                return Abs::Report(addr, i);
            }
            i += 1;
        }
        let mut j = 0;
        while j < 6 {
            if ty == 3 && b0 == OP_CODES[j].0 {
                return Abs::Req(addr, j);
            }
            if ty == 5 && b0 == OP_CODES[j].1 {
                return Abs::Ack(addr, j);
            }
            j += 1;
        }
    }
    Abs::Unknown(addr, ty, ptr, n)
}

fn any_borrowed_frame<'a>(arr: &'a [u8; 255]) -> (Frame<'a>, u16, u8, usize) {
    let addr: u16 = kani::any();
    let ty: u8 = kani::any();
    let n: usize = kani::any();
    kani::assume(n <= 255);
    let data = match Data::try_new(&arr[..n]) {
        Ok(d) => d,
        Err(e) => {
            core::mem::forget(e); // never drop an error value in a harness: its drop glue drags in every dyn Error
            panic!("try_new rejected <= 255 bytes")
        }
    };
    (Frame::new(Address(addr), MsgType(ty), data), addr, ty, n)
}

/// C04: classification follows the table exactly (iff), for every frame.
#[kani::proof]
#[kani::unwind(15)]
fn c04_classification_follows_table() {
    let arr: [u8; 255] = kani::any();
    let (frame, addr, ty, n) = any_borrowed_frame(&arr);
    let ptr = frame.data().as_ptr();
    let expect = spec_classify(addr, ty, n, arr[0], ptr);
    let m = Message::from(frame);
    let got = abs_of(&m);
    assert!(got == expect);
    kani::cover!(matches!(got, Abs::SendData(_, _, 0)), "cov_senddata_len0");
    kani::cover!(matches!(got, Abs::SendData(_, _, 1)), "cov_senddata_len1");
    kani::cover!(matches!(got, Abs::SendData(_, _, 255)), "cov_senddata_len255");
    kani::cover!(matches!(got, Abs::Chunks(0xFFFF)), "cov_chunks");
    kani::cover!(matches!(got, Abs::Report(_, 12)), "cov_report_last");
    kani::cover!(matches!(got, Abs::Req(_, 5)), "cov_req_last");
    kani::cover!(matches!(got, Abs::Ack(_, 0)), "cov_ack_first");
    kani::cover!(matches!(got, Abs::PixelsComplete(_)), "cov_pixels_complete");
    kani::cover!(matches!(got, Abs::Goodbye(_)), "cov_goodbye");
    kani::cover!(matches!(got, Abs::Unknown(_, 1, _, 2)), "cov_unknown_type1_len2");
    kani::cover!(matches!(got, Abs::Unknown(_, 4, _, 1)), "cov_unknown_state_code");
}

/// C04: Frame -> Message -> Frame is the identity (same address, type, and the very same data:
/// pointer and length for forwarded data, literal bytes for table rows).
#[kani::proof]
#[kani::unwind(15)]
fn c04_frame_message_frame_identity() {
    let arr: [u8; 255] = kani::any();
    let (frame, addr, ty, n) = any_borrowed_frame(&arr);
    let ptr = frame.data().as_ptr();
    let m = Message::from(frame);
    let specific = !matches!(m, Message::Unknown(_));
    let forwarded = matches!(m, Message::Unknown(_) | Message::SendData(_, _));
    let back = Frame::from(m);
    assert!(back.address().0 == addr);
    assert!(back.message_type().0 == ty);
    assert!(back.data().len() == n);
    if forwarded {
        assert!(back.data().as_ptr() == ptr); // same bytes, forwarded unchanged
    } else {
        assert!(n <= 1);
        if n == 1 {
            assert!(back.data()[0] == arr[0]);
        }
    }
    kani::cover!(specific && n == 1, "cov_specific_one_byte");
    kani::cover!(specific && n == 0 && ty == 1, "cov_chunks");
    kani::cover!(!specific && n == 255, "cov_unknown_255");
    kani::cover!(forwarded && specific && n == 0, "cov_senddata_empty");
}

/// C04 with owned data (Cow::Owned): same statement for short owned blocks.
#[kani::proof]
#[kani::unwind(15)]
fn c04_identity_owned_data() {
    let addr: u16 = kani::any();
    let ty: u8 = kani::any();
    let bytes: [u8; 3] = kani::any();
    let n: usize = kani::any();
    kani::assume(n <= 3);
    let mut v = vec![bytes[0], bytes[1], bytes[2]];
    v.truncate(n);
    let data = match Data::try_new(v) {
        Ok(d) => d,
        Err(e) => {
            core::mem::forget(e); // never drop an error value in a harness: its drop glue drags in every dyn Error
            panic!("try_new rejected 3 bytes")
        }
    };
    let frame = Frame::new(Address(addr), MsgType(ty), data);
    let back = Frame::from(Message::from(frame));
    assert!(back.address().0 == addr && back.message_type().0 == ty && back.data().len() == n);
    if n > 0 {
        assert!(back.data()[0] == bytes[0]);
    }
    if n > 1 {
        assert!(back.data()[1] == bytes[1]);
    }
    if n > 2 {
        assert!(back.data()[2] == bytes[2]);
    }
    kani::cover!(n == 3 && ty == 0, "cov_owned_senddata");
    kani::cover!(n == 1 && ty == 4, "cov_owned_state");
}

pub(crate) fn any_specific_message<'a>(arr: &'a [u8; 255]) -> Message<'a> {
    let kind: u8 = kani::any();
    let a: u16 = kani::any();
    let si: usize = kani::any();
    let oi: usize = kani::any();
    kani::assume(si < 13 && oi < 6);
    let s = STATE_CODES[si].1;
    let o = OP_CODES[oi].2;
    assert!(state_index(s) == si && op_index(o) == oi);
    match kind {
        0 => {
            let n: usize = kani::any();
            kani::assume(n <= 255);
            match Data::try_new(&arr[..n]) {
                Ok(d) => Message::SendData(Offset(a), d),
                Err(e) => {
            core::mem::forget(e); // never drop an error value in a harness: its drop glue drags in every dyn Error
            panic!("try_new rejected <= 255 bytes")
        }
            }
        }
        1 => Message::DataChunksSent(ChunkCount(a)),
        2 => Message::Hello(Address(a)),
        3 => Message::QueryState(Address(a)),
        4 => Message::ReportState(Address(a), s),
        5 => Message::RequestOperation(Address(a), o),
        6 => Message::AckOperation(Address(a), o),
        7 => Message::PixelsComplete(Address(a)),
        _ => Message::Goodbye(Address(a)),
    }
}

/// C05 (message leg): every specific message -> Frame -> Message is the identity, and its frame has the
/// (type, length, first byte) the table prescribes.
#[kani::proof]
#[kani::unwind(15)]
fn c05_message_frame_message_identity() {
    let arr: [u8; 255] = kani::any();
    let m = any_specific_message(&arr);
    let before = abs_of(&m);
    let f = Frame::from(m);
    // the frame is the table row of the message
    let n = f.data().len();
    let b0 = if n > 0 { f.data()[0] } else { 0 };
    assert!(spec_classify(f.address().0, f.message_type().0, n, b0, f.data().as_ptr()) == before);
    let back = Message::from(f);
    assert!(abs_of(&back) == before);
    assert!(!matches!(back, Message::Unknown(_)));
    kani::cover!(matches!(before, Abs::SendData(0xFFFF, _, 0)), "cov_senddata_empty");
    kani::cover!(matches!(before, Abs::SendData(_, _, 1)), "cov_senddata_one");
    kani::cover!(matches!(before, Abs::SendData(_, _, 255)), "cov_senddata_255");
    kani::cover!(matches!(before, Abs::Report(_, 11)), "cov_showing_pages");
    kani::cover!(matches!(before, Abs::Ack(_, 5)), "cov_ack_last");
    kani::cover!(matches!(before, Abs::Goodbye(_)), "cov_goodbye");
}

/// C05: two different specific messages never share a frame (type, address, data) — injectivity of
/// Frame::from on specific messages, stated directly on two symbolic messages with one-byte abstraction.
#[kani::proof]
#[kani::unwind(15)]
fn c05_distinct_messages_distinct_frames() {
    let arr1: [u8; 255] = kani::any();
    let arr2: [u8; 255] = kani::any();
    let m1 = any_specific_message(&arr1);
    let m2 = any_specific_message(&arr2);
    let (a1, a2) = (abs_of(&m1), abs_of(&m2));
    let both_data = matches!(a1, Abs::SendData(..)) && matches!(a2, Abs::SendData(..));
    let f1 = Frame::from(m1);
    let f2 = Frame::from(m2);
    let same_header = f1.address() == f2.address() && f1.message_type() == f2.message_type() && f1.data().len() == f2.data().len();
    if !both_data {
        // at least one is a table message (0 or 1 data bytes): equal frames force equal messages
        let same_first = same_header && (f1.data().len() == 0 || f1.data()[0] == f2.data()[0]);
        if same_header && same_first && f1.data().len() <= 1 {
            match (a1, a2) {
                (Abs::SendData(o1, _, n1), Abs::SendData(o2, _, n2)) => assert!(o1 == o2 && n1 == n2),
                (Abs::SendData(..), _) | (_, Abs::SendData(..)) => panic!("a data chunk and a table message share a frame"),
                _ => assert!(a1 == a2),
            }
        }
    } else if same_header {
        // two data chunks with the same header differ only in their data bytes, which the frame carries verbatim
        match (a1, a2) {
            (Abs::SendData(o1, p1, n1), Abs::SendData(o2, p2, n2)) => {
                assert!(o1 == o2 && n1 == n2);
                assert!(f1.data().as_ptr() == p1 && f2.data().as_ptr() == p2);
            }
            _ => {}
        }
    }
    kani::cover!(same_header && !both_data, "cov_same_header_table");
    kani::cover!(same_header && both_data, "cov_same_header_data");
}
