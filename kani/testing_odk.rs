// Overlaid as a child module of flipdot_testing::odk. The bridge contract of C17 and the Odk part of C20.
// Frame::read / Frame::write are contract stubs writing an event log (as in the C16 harness); the bus is a
// nondeterministic SignBus that records the message it is given and answers None / Some(any message) / Err.
#![allow(unsafe_code, dead_code, unused_imports, static_mut_refs, unused_results)]
use super::*;
use flipdot_core::{Address, ChunkCount, Data, FrameError, MsgType, Offset, Operation, State};
use serial_core::{PortSettings, SerialDevice};
use std::cell::Cell;
use std::error::Error;
use std::io::{self, Read, Write};

pub(crate) struct KPort {
    settings: PortSettings,
    timeout: Option<Duration>,
    fail_read_settings: bool,
    fail_write_settings: bool,
    fail_set_timeout: bool,
    err_kind: u8,
    ncalls: Cell<usize>,
}
fn any_settings() -> PortSettings {
    let b: u8 = kani::any();
    kani::assume(b < 12);
    let baud_rate = match b {
        0 => serial_core::Baud110,
        1 => serial_core::Baud300,
        2 => serial_core::Baud600,
        3 => serial_core::Baud1200,
        4 => serial_core::Baud2400,
        5 => serial_core::Baud4800,
        6 => serial_core::Baud9600,
        7 => serial_core::Baud19200,
        8 => serial_core::Baud38400,
        9 => serial_core::Baud57600,
        10 => serial_core::Baud115200,
        _ => serial_core::BaudOther(kani::any()),
    };
    let c: u8 = kani::any();
    kani::assume(c < 4);
    let char_size = match c {
        0 => serial_core::Bits5,
        1 => serial_core::Bits6,
        2 => serial_core::Bits7,
        _ => serial_core::Bits8,
    };
    let p: u8 = kani::any();
    kani::assume(p < 3);
    let parity = match p {
        0 => serial_core::ParityNone,
        1 => serial_core::ParityOdd,
        _ => serial_core::ParityEven,
    };
    let stop_bits = if kani::any() { serial_core::Stop1 } else { serial_core::Stop2 };
    let f: u8 = kani::any();
    kani::assume(f < 3);
    let flow_control = match f {
        0 => serial_core::FlowNone,
        1 => serial_core::FlowSoftware,
        _ => serial_core::FlowHardware,
    };
    PortSettings { baud_rate, char_size, parity, stop_bits, flow_control }
}
impl KPort {
    /// the error a refusing device call returns: any kind, including the io kinds a driver reports for a busy or
    /// interrupted device (a constructor must not mistake a persistent refusal of that kind for success)
    fn refusal(&self, what: &'static str) -> serial_core::Error {
        let kind = match self.err_kind % 6 {
            0 => serial_core::ErrorKind::NoDevice,
            1 => serial_core::ErrorKind::InvalidInput,
            2 => serial_core::ErrorKind::Io(io::ErrorKind::Interrupted),
            3 => serial_core::ErrorKind::Io(io::ErrorKind::WouldBlock),
            4 => serial_core::ErrorKind::Io(io::ErrorKind::TimedOut),
            _ => serial_core::ErrorKind::Io(io::ErrorKind::Other),
        };
        serial_core::Error::new(kind, what)
    }
    fn any() -> Self {
        KPort { settings: any_settings(), timeout: None, fail_read_settings: kani::any(), fail_write_settings: kani::any(), fail_set_timeout: kani::any(), err_kind: kani::any(), ncalls: Cell::new(0) }
    }
    fn quiet() -> Self {
        KPort { settings: any_settings(), timeout: None, fail_read_settings: false, fail_write_settings: false, fail_set_timeout: false, err_kind: 0, ncalls: Cell::new(0) }
    }
}
impl Read for KPort {
    fn read(&mut self, _buf: &mut [u8]) -> io::Result<usize> {
        Ok(0)
    }
}
impl Write for KPort {
    fn write(&mut self, buf: &[u8]) -> io::Result<usize> {
        Ok(buf.len())
    }
    fn flush(&mut self) -> io::Result<()> {
        Ok(())
    }
}
impl SerialDevice for KPort {
    type Settings = PortSettings;
    fn read_settings(&self) -> serial_core::Result<PortSettings> {
        self.ncalls.set(self.ncalls.get() + 1);
        if self.fail_read_settings {
            Err(self.refusal("read_settings refused"))
        } else {
            Ok(self.settings)
        }
    }
    fn write_settings(&mut self, s: &PortSettings) -> serial_core::Result<()> {
        self.ncalls.set(self.ncalls.get() + 1);
        if self.fail_write_settings {
            Err(self.refusal("write_settings refused"))
        } else {
            self.settings = *s;
            Ok(())
        }
    }
    fn timeout(&self) -> Duration {
        match self.timeout {
            Some(t) => t,
            None => Duration::from_millis(0),
        }
    }
    fn set_timeout(&mut self, t: Duration) -> serial_core::Result<()> {
        self.ncalls.set(self.ncalls.get() + 1);
        if self.fail_set_timeout {
            Err(self.refusal("set_timeout refused"))
        } else {
            self.timeout = Some(t);
            Ok(())
        }
    }
    fn set_rts(&mut self, _: bool) -> serial_core::Result<()> {
        Ok(())
    }
    fn set_dtr(&mut self, _: bool) -> serial_core::Result<()> {
        Ok(())
    }
    fn read_cts(&mut self) -> serial_core::Result<bool> {
        Ok(false)
    }
    fn read_dsr(&mut self) -> serial_core::Result<bool> {
        Ok(false)
    }
    fn read_ri(&mut self) -> serial_core::Result<bool> {
        Ok(false)
    }
    fn read_cd(&mut self) -> serial_core::Result<bool> {
        Ok(false)
    }
}

struct NullBus;
impl SignBus for NullBus {
    fn process_message<'a>(&mut self, _m: Message<'_>) -> Result<Option<Message<'a>>, Box<dyn Error + Send + Sync>> {
        Ok(None)
    }
}

/// C20 for Odk::try_new: a bridge object exists only on a fully configured port (19200 8N1, no flow control, 10 s).
#[kani::proof]
#[kani::unwind(8)]
fn c20_odk_try_new() {
    let port = KPort::any();
    let no_failure = !port.fail_read_settings && !port.fail_write_settings && !port.fail_set_timeout;
    let kind = port.err_kind % 6;
    let r = Odk::try_new(port, NullBus);
    match &r {
        Ok(odk) => {
            assert!(no_failure);
            let s = &odk.port.settings;
            assert!(s.baud_rate == serial_core::Baud19200 && s.char_size == serial_core::Bits8 && s.parity == serial_core::ParityNone);
            assert!(s.stop_bits == serial_core::Stop1 && s.flow_control == serial_core::FlowNone);
            assert!(odk.port.timeout == Some(Duration::from_secs(10)));
        }
        Err(_) => assert!(!no_failure),
    }
    kani::cover!(r.is_ok(), "cov_ok");
    kani::cover!(r.is_err(), "cov_err");
    kani::cover!(r.is_err() && (kind == 2 || kind == 3), "cov_err_transient_kind_persisting");
}

// ----------------------------------------------------------------------------- C17 bridge contract

#[derive(Copy, Clone, PartialEq, Eq)]
enum Ev {
    None,
    Read,
    Bus { addr: u16, ty: u8, len: usize, b0: u8 },
    Write { addr: u16, ty: u8, len: usize, b0: u8 },
}
static mut EVENTS: [Ev; 6] = [Ev::None; 6];
static mut NEV: usize = 0;
static mut READ_FAILS: bool = false;
static mut WRITE_FAILS: bool = false;
static mut IN_ADDR: u16 = 0;
static mut IN_TYPE: u8 = 0;
static mut IN_LEN: usize = 0;
static mut IN_DATA: [u8; 4] = [0; 4];

fn push(e: Ev) {
    unsafe {
        if NEV < 6 {
            EVENTS[NEV] = e;
        }
        NEV += 1;
    }
}

fn stub_frame_read<'a, R: Read>(_reader: &mut R) -> Result<Frame<'a>, FrameError>
where
    'a: 'a,
{
    push(Ev::Read);
    unsafe {
        if READ_FAILS {
            return Err(FrameError::InvalidFrame { data: Vec::new() });
        }
        let mut v = IN_DATA.to_vec();
        v.truncate(IN_LEN);
        match Data::try_new(v) {
            Ok(d) => Ok(Frame::new(Address(IN_ADDR), MsgType(IN_TYPE), d)),
            Err(e) => {
            core::mem::forget(e); // never drop an error value in a harness: its drop glue drags in every dyn Error
            panic!("try_new")
        }
        }
    }
}
fn stub_frame_write<'a, W: Write>(f: &Frame<'a>, _writer: &mut W) -> Result<(), FrameError>
where
    'a: 'a,
{
    let d = f.data();
    push(Ev::Write { addr: f.address().0, ty: f.message_type().0, len: d.len(), b0: if d.len() > 0 { d[0] } else { 0 } });
    if unsafe { WRITE_FAILS } {
        Err(FrameError::InvalidFrame { data: Vec::new() })
    } else {
        Ok(())
    }
}

const STATES: [State; 13] = [
    State::Unconfigured,
    State::ConfigInProgress,
    State::ConfigReceived,
    State::ConfigFailed,
    State::PixelsInProgress,
    State::PixelsReceived,
    State::PixelsFailed,
    State::PageLoaded,
    State::PageLoadInProgress,
    State::PageShown,
    State::PageShowInProgress,
    State::ShowingPages,
    State::ReadyToReset,
];
const OPS: [Operation; 6] = [
    Operation::ReceiveConfig,
    Operation::ReceivePixels,
    Operation::ShowLoadedPage,
    Operation::LoadNextPage,
    Operation::StartReset,
    Operation::FinishReset,
];

/// A bus that records what it is given and answers nondeterministically.
struct NondetBus {
    mode: u8,      // 0 = Ok(None), 1 = Ok(Some(reply)), 2 = Err
    reply_kind: u8,
    reply_a: u16,
    reply_si: usize,
    reply_oi: usize,
}
impl SignBus for NondetBus {
    fn process_message<'a>(&mut self, m: Message<'_>) -> Result<Option<Message<'a>>, Box<dyn Error + Send + Sync>> {
        let f = Frame::from(m);
        let d = f.data();
        push(Ev::Bus { addr: f.address().0, ty: f.message_type().0, len: d.len(), b0: if d.len() > 0 { d[0] } else { 0 } });
        core::mem::forget(f);
        match self.mode {
            0 => Ok(None),
            1 => {
                let a = self.reply_a;
                Ok(Some(match self.reply_kind {
                    0 => Message::ReportState(Address(a), STATES[self.reply_si]),
                    1 => Message::AckOperation(Address(a), OPS[self.reply_oi]),
                    2 => Message::Hello(Address(a)),
                    3 => Message::DataChunksSent(ChunkCount(a)),
                    4 => Message::Goodbye(Address(a)),
                    5 => Message::PixelsComplete(Address(a)),
                    _ => Message::RequestOperation(Address(a), OPS[self.reply_oi]),
                }))
            }
            _ => Err("bus failure".into()),
        }
    }
}

/// C17 (bridge): the bus receives exactly the decoding of the frame that was read; a frame is written back exactly
/// when the bus replied, and it is that reply's frame; a line that cannot be read/decoded is a communication error
/// and the bus is not touched; a bus error is a bus error and nothing is written.
#[kani::proof]
#[kani::unwind(8)]
#[kani::stub(flipdot_core::Frame::write, stub_frame_write)]
#[kani::stub(flipdot_core::Frame::read, stub_frame_read)]
fn c17_bridge_forwards_exactly() {
    let bus = NondetBus { mode: kani::any(), reply_kind: kani::any(), reply_a: kani::any(), reply_si: kani::any(), reply_oi: kani::any() };
    kani::assume(bus.mode <= 2 && bus.reply_si < 13 && bus.reply_oi < 6);
    let (mode, rk, ra, rsi, roi) = (bus.mode, bus.reply_kind, bus.reply_a, bus.reply_si, bus.reply_oi);
    unsafe {
        READ_FAILS = kani::any();
        WRITE_FAILS = kani::any();
        IN_ADDR = kani::any();
        IN_TYPE = kani::any();
        IN_LEN = kani::any();
        kani::assume(IN_LEN <= 4);
        IN_DATA = kani::any();
        NEV = 0;
    }
    let mut odk = Odk { port: KPort::quiet(), bus };
    let r = odk.process_message();
    let (ev, n, rf, wf) = unsafe { (EVENTS, NEV, READ_FAILS, WRITE_FAILS) };
    let (ia, it, il, id) = unsafe { (IN_ADDR, IN_TYPE, IN_LEN, IN_DATA) };
    assert!(n >= 1 && ev[0] == Ev::Read);
    if rf {
        assert!(n == 1); // bus untouched, nothing written
        assert!(matches!(r, Err(OdkError::Communication { .. })));
    } else {
        // forwarded message == decoding of the frame read (Message::from is injective up to Frame::from, C04)
        assert!(n >= 2 && ev[1] == Ev::Bus { addr: ia, ty: it, len: il, b0: if il > 0 { id[0] } else { 0 } });
        match mode {
            0 => {
                assert!(n == 2);
                assert!(r.is_ok());
            }
            1 => {
                assert!(n == 3);
                let expect = Frame::from(match rk {
                    0 => Message::ReportState(Address(ra), STATES[rsi]),
                    1 => Message::AckOperation(Address(ra), OPS[roi]),
                    2 => Message::Hello(Address(ra)),
                    3 => Message::DataChunksSent(ChunkCount(ra)),
                    4 => Message::Goodbye(Address(ra)),
                    5 => Message::PixelsComplete(Address(ra)),
                    _ => Message::RequestOperation(Address(ra), OPS[roi]),
                });
                let el = expect.data().len();
                assert!(ev[2] == Ev::Write { addr: expect.address().0, ty: expect.message_type().0, len: el, b0: if el > 0 { expect.data()[0] } else { 0 } });
                if wf {
                    assert!(matches!(r, Err(OdkError::Communication { .. })));
                } else {
                    assert!(r.is_ok());
                }
            }
            _ => {
                assert!(n == 2); // no write after a bus error
                assert!(matches!(r, Err(OdkError::Bus { .. })));
            }
        }
    }
    kani::cover!(rf, "cov_undecodable_line");
    kani::cover!(!rf && mode == 1 && !wf, "cov_reply_written");
    kani::cover!(!rf && mode == 2, "cov_bus_error");
    kani::cover!(!rf && mode == 0 && it == 0 && il == 4, "cov_data_chunk_forwarded");
    core::mem::forget(r);
}
