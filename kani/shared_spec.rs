// ---- shared_spec.rs: the sign-side protocol state machine as a pure function on an abstract state (property C13),
// written from the protocol description. Included textually (//@include) into the harness modules that use it:
// testing_vsign.rs (refinement: the real VirtualSign step equals spec_step) and sign.rs (C08 composition lemma).
/// total_bytes of a page, as documented (not taken from the code)
pub(crate) fn padded_len(w: u32, h: u32) -> usize {
    let d = 4 + (w as usize) * ((h as usize + 7) / 8);
    (d + 15) / 16 * 16
}

#[derive(Copy, Clone, PartialEq, Eq)]
pub(crate) struct Snap {
    pub(crate) address: u16,
    pub(crate) auto: bool,
    pub(crate) state: usize,
    pub(crate) n_pages: usize,
    pub(crate) pend_len: usize,
    pub(crate) chunks: u16,
    pub(crate) width: u32,
    pub(crate) height: u32,
    pub(crate) ty: usize,
}
#[derive(Copy, Clone, PartialEq, Eq)]
pub(crate) enum Reply {
    None,
    Report(u16, usize),
    Ack(u16, usize),
}
// state indices (see STATES)
pub(crate) const UNCONF: usize = 0;
pub(crate) const CFG_PROG: usize = 1;
pub(crate) const CFG_RECV: usize = 2;
pub(crate) const CFG_FAIL: usize = 3;
pub(crate) const PIX_PROG: usize = 4;
pub(crate) const PIX_RECV: usize = 5;
pub(crate) const PIX_FAIL: usize = 6;
pub(crate) const LOADED: usize = 7;
pub(crate) const LOAD_PROG: usize = 8;
pub(crate) const SHOWN: usize = 9;
pub(crate) const SHOW_PROG: usize = 10;
pub(crate) const SHOWING: usize = 11;
pub(crate) const READY_RESET: usize = 12;

/// What a flush of the pending buffer does to the number of stored pages (documented behaviour: a buffer that is
/// exactly one page of the configured size becomes a stored page; anything else is discarded).
pub(crate) fn flush_pages(s: &Snap) -> usize {
    if s.pend_len > 0 && s.width > 0 && s.height > 0 && s.pend_len == padded_len(s.width, s.height) {
        s.n_pages + 1
    } else {
        s.n_pages
    }
}

/// The sign-side protocol state machine, written from the protocol description (property C13).
/// `cfg`: for a 16-byte block at offset 0: (family byte, derived width, derived height, decoded type index).
pub(crate) fn spec_step(s: &Snap, m: &Message<'_>, cfg: (u8, u32, u32, usize)) -> (Snap, Reply) {
    let mut n = *s;
    let mine = |a: &Address| a.0 == s.address;
    match m {
        Message::Hello(a) | Message::QueryState(a) if mine(a) => {
            // report the current state; an in-progress load/show completes after being reported once
            if s.state == LOAD_PROG {
                n.state = LOADED;
            } else if s.state == SHOW_PROG {
                n.state = SHOWN;
            }
            (n, Reply::Report(s.address, s.state))
        }
        Message::RequestOperation(a, op) if mine(a) => {
            let (legal, next, code) = match op {
                Operation::ReceiveConfig => (s.state == UNCONF || s.state == CFG_FAIL, CFG_PROG, 0),
                Operation::ReceivePixels => (
                    s.state == CFG_RECV || s.state == PIX_FAIL || s.state == LOADED || s.state == LOAD_PROG || s.state == SHOWN || s.state == SHOW_PROG || s.state == SHOWING,
                    PIX_PROG,
                    1,
                ),
                Operation::ShowLoadedPage => (s.state == LOADED, SHOW_PROG, 2),
                Operation::LoadNextPage => (s.state == SHOWN, LOAD_PROG, 3),
                Operation::StartReset => (true, READY_RESET, 4),
                Operation::FinishReset => (s.state == READY_RESET, UNCONF, 5),
                #[allow(unreachable_patterns)]
                _ => (false, s.state, 99),
            };
            if !legal {
                return (n, Reply::None); // silent and unchanged
            }
            n.state = next;
            if code == 1 {
                n.n_pages = 0; // a new pixel transfer replaces the stored pages
            }
            if code == 5 {
                n = blank(s);
            }
            (n, Reply::Ack(s.address, code))
        }
        Message::Goodbye(a) if mine(a) => (blank(s), Reply::None),
        Message::PixelsComplete(a) if mine(a) => {
            if s.state == PIX_RECV {
                n.state = if s.auto { SHOWING } else { LOADED };
            }
            (n, Reply::None)
        }
        Message::SendData(off, d) => {
            let len = d.get().len();
            if s.state == CFG_PROG {
                if off.0 == 0 && len == 16 && (cfg.0 == 0x04 || cfg.0 == 0x08) {
                    n.width = cfg.1;
                    n.height = cfg.2;
                    n.ty = cfg.3;
                    n.chunks = s.chunks.wrapping_add(1);
                }
            } else if s.state == PIX_PROG {
                if off.0 == 0 {
                    // offset 0 starts a new page: what was buffered so far is complete (stored) or malformed (dropped)
                    n.n_pages = flush_pages(s);
                    n.pend_len = len;
                } else {
                    n.pend_len = s.pend_len + len;
                }
                n.chunks = s.chunks.wrapping_add(1);
            }
            (n, Reply::None)
        }
        Message::DataChunksSent(c) => {
            if s.state == CFG_PROG {
                n.state = if c.0 == s.chunks { CFG_RECV } else { CFG_FAIL };
            } else if s.state == PIX_PROG {
                n.state = if c.0 == s.chunks { PIX_RECV } else { PIX_FAIL };
            }
            if s.state == CFG_PROG || s.state == PIX_PROG {
                n.n_pages = flush_pages(s);
                n.pend_len = 0;
                n.chunks = 0;
            }
            (n, Reply::None)
        }
        _ => (n, Reply::None),
    }
}
pub(crate) fn blank(s: &Snap) -> Snap {
    Snap { address: s.address, auto: s.auto, state: UNCONF, n_pages: 0, pend_len: 0, chunks: 0, width: 0, height: 0, ty: 11 }
}

/// dimensions of the 11 supported sign types (documented sizes; index = position in TYPES)
pub(crate) const TYPE_DIMS: [(u32, u32); 11] = [(112, 16), (98, 16), (90, 7), (30, 10), (23, 10), (30, 7), (160, 16), (140, 16), (96, 8), (48, 16), (40, 12)];

/// The state-level part of the inductive invariant of C13 (see inv() in testing_vsign.rs, which adds the
/// page-size conjunct that needs the real pages).
pub(crate) fn snap_inv(s: &Snap) -> bool {
    let receiving = s.state == CFG_PROG || s.state == PIX_PROG;
    let hygiene = (receiving || s.state == READY_RESET || s.chunks == 0) && (s.state == PIX_PROG || s.state == READY_RESET || s.pend_len == 0);
    let blank_ok = s.state != UNCONF || (s.n_pages == 0 && s.pend_len == 0 && s.chunks == 0 && s.width == 0 && s.height == 0 && s.ty == 11);
    let config_phase = s.state == UNCONF || s.state == CFG_PROG || s.state == CFG_RECV || s.state == CFG_FAIL;
    // a recorded type is always recorded together with that type's size
    let type_ok = s.ty >= 11 || (s.width, s.height) == TYPE_DIMS[s.ty];
    hygiene && blank_ok && (!config_phase || s.n_pages == 0) && type_ok
}
// ---- end shared_spec.rs
