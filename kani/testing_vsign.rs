// Overlaid as a child module of flipdot_testing::virtual_sign_bus. C12 (never panics), C13 (refines the sign-side
// state machine), C14 (isolation), and the virtual-sign part of C19.
// All sign-level harnesses are *per step from an arbitrary state*: the statement is inductive, so every message
// history of any length is covered without exploring sequences.
#![allow(dead_code, unused_imports, unused_variables, unused_results)]
use super::*;
use flipdot_core::{Data, PageId};

const STATES: [State; 13] = [
    State::Unconfigured,
    State::ConfigInProgress,
    State::ConfigReceived,
    State::ConfigFailed,
    State::PixelsInProgress,
    State::PixelsReceived,
    State::PixelsFailed,
    State::PageLoaded,
    State::PageLoadInProgress,
    State::PageShown,
    State::PageShowInProgress,
    State::ShowingPages,
    State::ReadyToReset,
];
const OPS: [Operation; 6] = [
    Operation::ReceiveConfig,
    Operation::ReceivePixels,
    Operation::ShowLoadedPage,
    Operation::LoadNextPage,
    Operation::StartReset,
    Operation::FinishReset,
];
const TYPES: [SignType; 11] = [
    SignType::Max3000Front112x16,
    SignType::Max3000Front98x16,
    SignType::Max3000Side90x7,
    SignType::Max3000Rear30x10,
    SignType::Max3000Rear23x10,
    SignType::Max3000Dash30x7,
    SignType::HorizonFront160x16,
    SignType::HorizonFront140x16,
    SignType::HorizonSide96x8,
    SignType::HorizonRear48x16,
    SignType::HorizonDash40x12,
];

fn state_idx(s: State) -> usize {
    let mut i = 0;
    while i < 13 {
        if STATES[i] == s {
            return i;
        }
        i += 1;
    }
    13
}
fn type_idx(t: Option<SignType>) -> usize {
    match t {
        None => 11,
        Some(t) => {
            let mut i = 0;
            while i < 11 {
                if TYPES[i] == t {
                    return i;
                }
                i += 1;
            }
            12
        }
    }
}

const PEND_MAX: usize = 64;
const DATA_MAX: usize = 255;

/// total_bytes of a page, as documented (not taken from the code)
fn padded_len(w: u32, h: u32) -> usize {
    let d = 4 + (w as usize) * ((h as usize + 7) / 8);
    (d + 15) / 16 * 16
}

/// An arbitrary sign: any address, flip style, state, recorded type, counter and dimensions; a pending buffer of
/// any length 0..=64 with the contents of `pend`; 0 or 1 stored page.
fn any_sign(pend: &[u8; PEND_MAX], with_inv: bool) -> VirtualSign<'static> {
    any_sign_opt(pend, with_inv, 2, true)
}
fn any_sign_opt(pend: &[u8; PEND_MAX], with_inv: bool, pend_mode: u8, allow_page: bool) -> VirtualSign<'static> {
    let si: usize = kani::any();
    kani::assume(si < 13);
    let ti: usize = kani::any();
    kani::assume(ti < 12);
    let n: usize = match pend_mode { 0 => 0, 1 => 16, _ => kani::any() };
    kani::assume(n <= PEND_MAX);
    let width: u32 = kani::any();
    let height: u32 = kani::any();
    let have_page: bool = allow_page && kani::any();
    let mut pages = Vec::with_capacity(2); // room for the page a flush may add: no reallocation of the page vector
    if have_page {
        if with_inv {
            // a stored page has the sign's dimensions; keep it small so that it can be allocated concretely
            kani::assume(width == 2 && height == 8);
        }
        pages.push(Page::new(PageId(kani::any()), 2, 8));
    }
    let s = VirtualSign {
        address: Address(kani::any()),
        flip_style: if kani::any() { PageFlipStyle::Automatic } else { PageFlipStyle::Manual },
        state: STATES[si],
        pages,
        pending_data: if pend_mode == 0 { Vec::new() } else if pend_mode == 1 { pend[..16].to_vec() } else { pend[..n].to_vec() },
        data_chunks: kani::any(),
        width,
        height,
        sign_type: if ti < 11 { Some(TYPES[ti]) } else { None },
    };
    if with_inv {
        kani::assume(inv(&s));
    }
    s
}

/// Inductive invariant used by C13/C14 (proved preserved by every step, and true initially).
fn inv(s: &VirtualSign<'_>) -> bool {
    let receiving = s.state == State::ConfigInProgress || s.state == State::PixelsInProgress;
    // counter hygiene: outside a transfer (and outside the limbo state an abandoned transfer is left in by
    // StartReset) nothing is buffered and nothing is counted
    let hygiene = receiving || s.state == State::ReadyToReset || (s.data_chunks == 0 && s.pending_data.is_empty());
    let blank = s.state != State::Unconfigured
        || (s.pages.is_empty() && s.pending_data.is_empty() && s.data_chunks == 0 && s.width == 0 && s.height == 0 && s.sign_type.is_none());
    let pages_ok = s.pages.is_empty() || (s.pages[0].width() == s.width && s.pages[0].height() == s.height && s.pages[0].as_bytes().len() == padded_len(s.width, s.height));
    hygiene && blank && pages_ok
}

/// kind 0..=9; the data of a SendData message is a prefix of `arr`
fn any_message<'a>(arr: &'a [u8; DATA_MAX]) -> Message<'a> {
    let kind: u8 = kani::any();
    let a: u16 = kani::any();
    let si: usize = kani::any();
    let oi: usize = kani::any();
    kani::assume(si < 13 && oi < 6);
    match kind {
        0 => {
            let n: usize = kani::any();
            kani::assume(n <= DATA_MAX);
            match Data::try_new(&arr[..n]) {
                Ok(d) => Message::SendData(Offset(a), d),
                Err(_) => panic!("try_new"),
            }
        }
        1 => Message::DataChunksSent(ChunkCount(a)),
        2 => Message::Hello(Address(a)),
        3 => Message::QueryState(Address(a)),
        4 => Message::ReportState(Address(a), STATES[si]),
        5 => Message::RequestOperation(Address(a), OPS[oi]),
        6 => Message::AckOperation(Address(a), OPS[oi]),
        7 => Message::PixelsComplete(Address(a)),
        8 => Message::Goodbye(Address(a)),
        _ => {
            let n: usize = kani::any();
            kani::assume(n <= 3);
            match Data::try_new(&arr[..n]) {
                Ok(d) => Message::Unknown(flipdot_core::Frame::new(Address(a), flipdot_core::MsgType(kani::any()), d)),
                Err(_) => panic!("try_new"),
            }
        }
    }
}

// ------------------------------------------------------------------------------------------ C12

/// C12: one step from ANY state (no invariant assumed) with ANY message returns normally.
#[kani::proof]
#[kani::unwind(14)]
fn c12_step_never_panics() {
    let pend: [u8; PEND_MAX] = kani::any();
    let arr: [u8; DATA_MAX] = kani::any();
    let mut sign = any_sign(&pend, false);
    let before_state = sign.state;
    let before_pages = sign.pages.len();
    let m = any_message(&arr);
    let is_data = matches!(m, Message::SendData(..));
    let is_count = matches!(m, Message::DataChunksSent(..));
    let r = sign.process_message(&m);
    kani::cover!(is_data && before_state == State::ConfigInProgress && sign.width > 255, "cov_config_width_over_255");
    kani::cover!(is_data && before_state == State::PixelsInProgress && sign.pages.len() > before_pages, "cov_flush_stored_page");
    kani::cover!(is_data && before_state == State::PixelsInProgress && sign.pending_data.len() > PEND_MAX + 200, "cov_long_pending");
    kani::cover!(is_count && before_state == State::PixelsInProgress && sign.state == State::PixelsFailed, "cov_failed");
    kani::cover!(is_count && before_state == State::PixelsInProgress && sign.state == State::PixelsReceived && sign.pages.len() == before_pages, "cov_received_malformed_dropped");
    kani::cover!(r.is_some(), "cov_reply");
    core::mem::forget(r);
}

/// C12 at bus level: a bus of two arbitrary signs processes any message without panicking.
#[kani::proof]
#[kani::unwind(14)]
fn c12_bus_never_panics_2() {
    let pend1: [u8; PEND_MAX] = kani::any();
    let pend2: [u8; PEND_MAX] = kani::any();
    let arr: [u8; DATA_MAX] = kani::any();
    // bus-level composition: the signs' buffers are kept concrete in length (0 and 16 bytes) and data chunks are 0 or 16
    // bytes long; the per-sign behaviour for all buffer/chunk lengths is the subject of c12_step_never_panics
    let mut bus = VirtualSignBus { signs: vec![any_sign_opt(&pend1, false, 0, false), any_sign_opt(&pend2, false, 1, false)] };
    let m = any_message(&arr);
    if let Message::SendData(_, d) = &m {
        kani::assume(d.get().len() == 0 || d.get().len() == 16);
    }
    let r = bus.process_message(m);
    match &r {
        Ok(x) => kani::cover!(x.is_some(), "cov_reply"),
        Err(_) => panic!("virtual bus returned an error"),
    }
    core::mem::forget(r);
}

/// C12 (configuration digestion): any 16-byte block in ConfigInProgress is digested without overflow.
#[kani::proof]
#[kani::unwind(18)]
fn c12_config_block_arbitrary_fields() {
    let block: [u8; 16] = kani::any();
    let mut sign = VirtualSign::new(Address(kani::any()), PageFlipStyle::Manual);
    sign.state = State::ConfigInProgress;
    let m = match Data::try_new(&block[..]) {
        Ok(d) => Message::SendData(Offset(0), d),
        Err(_) => panic!("try_new"),
    };
    let r = sign.process_message(&m);
    assert!(r.is_none());
    if block[0] == 0x04 {
        assert!(sign.width == u32::from(block[5]) + u32::from(block[6]) + u32::from(block[7]) + u32::from(block[8]));
        assert!(sign.height == u32::from(block[4]));
        assert!(sign.data_chunks == 1);
    } else if block[0] == 0x08 {
        assert!(sign.width == u32::from(block[7]) && sign.height == u32::from(block[5]));
        assert!(sign.data_chunks == 1);
    } else {
        assert!(sign.width == 0 && sign.height == 0 && sign.data_chunks == 0 && sign.sign_type.is_none());
    }
    kani::cover!(sign.width == 1020, "cov_max_width");
    kani::cover!(sign.sign_type.is_some(), "cov_known_type");
    kani::cover!(block[0] == 0x08 && sign.sign_type.is_none(), "cov_unknown_horizon");
}

// ------------------------------------------------------------------------------------------ C13

#[derive(Copy, Clone, PartialEq, Eq)]
struct Snap {
    address: u16,
    auto: bool,
    state: usize,
    n_pages: usize,
    pend_len: usize,
    chunks: u16,
    width: u32,
    height: u32,
    ty: usize,
}
fn snap(s: &VirtualSign<'_>) -> Snap {
    Snap {
        address: s.address.0,
        auto: s.flip_style == PageFlipStyle::Automatic,
        state: state_idx(s.state),
        n_pages: s.pages.len(),
        pend_len: s.pending_data.len(),
        chunks: s.data_chunks,
        width: s.width,
        height: s.height,
        ty: type_idx(s.sign_type),
    }
}

#[derive(Copy, Clone, PartialEq, Eq)]
enum Reply {
    None,
    Report(u16, usize),
    Ack(u16, usize),
}
fn reply_of(r: &Option<Message<'_>>) -> Reply {
    match r {
        None => Reply::None,
        Some(Message::ReportState(Address(a), s)) => Reply::Report(*a, state_idx(*s)),
        Some(Message::AckOperation(Address(a), o)) => {
            let mut i = 0;
            let mut k = 6;
            while i < 6 {
                if OPS[i] == *o {
                    k = i;
                }
                i += 1;
            }
            Reply::Ack(*a, k)
        }
        Some(_) => Reply::Ack(0xFFFF, 99),
    }
}

// state indices (see STATES)
const UNCONF: usize = 0;
const CFG_PROG: usize = 1;
const CFG_RECV: usize = 2;
const CFG_FAIL: usize = 3;
const PIX_PROG: usize = 4;
const PIX_RECV: usize = 5;
const PIX_FAIL: usize = 6;
const LOADED: usize = 7;
const LOAD_PROG: usize = 8;
const SHOWN: usize = 9;
const SHOW_PROG: usize = 10;
const SHOWING: usize = 11;
const READY_RESET: usize = 12;

/// What a flush of the pending buffer does to the number of stored pages (documented behaviour: a buffer that is
/// exactly one page of the configured size becomes a stored page; anything else is discarded).
fn flush_pages(s: &Snap) -> usize {
    if s.pend_len > 0 && s.width > 0 && s.height > 0 && s.pend_len == padded_len(s.width, s.height) {
        s.n_pages + 1
    } else {
        s.n_pages
    }
}

/// The sign-side protocol state machine, written from the protocol description (property C13).
/// `cfg`: for a 16-byte block at offset 0: (family byte, derived width, derived height, decoded type index).
fn spec_step(s: &Snap, m: &Message<'_>, cfg: (u8, u32, u32, usize)) -> (Snap, Reply) {
    let mut n = *s;
    let mine = |a: &Address| a.0 == s.address;
    match m {
        Message::Hello(a) | Message::QueryState(a) if mine(a) => {
            // report the current state; an in-progress load/show completes after being reported once
            if s.state == LOAD_PROG {
                n.state = LOADED;
            } else if s.state == SHOW_PROG {
                n.state = SHOWN;
            }
            (n, Reply::Report(s.address, s.state))
        }
        Message::RequestOperation(a, op) if mine(a) => {
            let (legal, next, code) = match op {
                Operation::ReceiveConfig => (s.state == UNCONF || s.state == CFG_FAIL, CFG_PROG, 0),
                Operation::ReceivePixels => (
                    s.state == CFG_RECV || s.state == PIX_FAIL || s.state == LOADED || s.state == LOAD_PROG || s.state == SHOWN || s.state == SHOW_PROG || s.state == SHOWING,
                    PIX_PROG,
                    1,
                ),
                Operation::ShowLoadedPage => (s.state == LOADED, SHOW_PROG, 2),
                Operation::LoadNextPage => (s.state == SHOWN, LOAD_PROG, 3),
                Operation::StartReset => (true, READY_RESET, 4),
                Operation::FinishReset => (s.state == READY_RESET, UNCONF, 5),
                #[allow(unreachable_patterns)]
                _ => (false, s.state, 99),
            };
            if !legal {
                return (n, Reply::None); // silent and unchanged
            }
            n.state = next;
            if code == 1 {
                n.n_pages = 0; // a new pixel transfer replaces the stored pages
            }
            if code == 5 {
                n = blank(s);
            }
            (n, Reply::Ack(s.address, code))
        }
        Message::Goodbye(a) if mine(a) => (blank(s), Reply::None),
        Message::PixelsComplete(a) if mine(a) => {
            if s.state == PIX_RECV {
                n.state = if s.auto { SHOWING } else { LOADED };
            }
            (n, Reply::None)
        }
        Message::SendData(off, d) => {
            let len = d.get().len();
            if s.state == CFG_PROG {
                if off.0 == 0 && len == 16 && (cfg.0 == 0x04 || cfg.0 == 0x08) {
                    n.width = cfg.1;
                    n.height = cfg.2;
                    n.ty = cfg.3;
                    n.chunks = s.chunks.wrapping_add(1);
                }
            } else if s.state == PIX_PROG {
                if off.0 == 0 {
                    // offset 0 starts a new page: what was buffered so far is complete (stored) or malformed (dropped)
                    n.n_pages = flush_pages(s);
                    n.pend_len = len;
                } else {
                    n.pend_len = s.pend_len + len;
                }
                n.chunks = s.chunks.wrapping_add(1);
            }
            (n, Reply::None)
        }
        Message::DataChunksSent(c) => {
            if s.state == CFG_PROG {
                n.state = if c.0 == s.chunks { CFG_RECV } else { CFG_FAIL };
            } else if s.state == PIX_PROG {
                n.state = if c.0 == s.chunks { PIX_RECV } else { PIX_FAIL };
            }
            if s.state == CFG_PROG || s.state == PIX_PROG {
                n.n_pages = flush_pages(s);
                n.pend_len = 0;
                n.chunks = 0;
            }
            (n, Reply::None)
        }
        _ => (n, Reply::None),
    }
}
fn blank(s: &Snap) -> Snap {
    Snap { address: s.address, auto: s.auto, state: UNCONF, n_pages: 0, pend_len: 0, chunks: 0, width: 0, height: 0, ty: 11 }
}

/// what the documentation says a configuration block means (C19): family, width, height
fn cfg_of(arr: &[u8; DATA_MAX]) -> (u8, u32, u32, usize) {
    let (w, h) = match arr[0] {
        0x04 => (u32::from(arr[5]) + u32::from(arr[6]) + u32::from(arr[7]) + u32::from(arr[8]), u32::from(arr[4])),
        0x08 => (u32::from(arr[7]), u32::from(arr[5])),
        _ => (0, 0),
    };
    let mut ty = 11;
    let mut i = 0;
    while i < 11 {
        let b = TYPES[i].to_bytes();
        if b[0] == arr[0] && b[1] == arr[1] {
            ty = i;
        }
        i += 1;
    }
    (arr[0], w, h, ty)
}

/// C13: from every state satisfying the invariant, on every message, the real step equals the specified step
/// (reply and successor state), buffers and pages are assembled in arrival order, and the invariant is preserved.
#[kani::proof]
#[kani::unwind(14)]
fn c13_step_refines_spec() {
    let pend: [u8; PEND_MAX] = kani::any();
    let arr: [u8; DATA_MAX] = kani::any();
    let mut sign = any_sign(&pend, true);
    let before = snap(&sign);
    let old_page_ptr = if sign.pages.is_empty() { core::ptr::null() } else { sign.pages[0].as_bytes().as_ptr() };
    let old_pend_ptr = sign.pending_data.as_ptr();
    let m = any_message(&arr);
    let (want, want_reply) = spec_step(&before, &m, cfg_of(&arr));
    let r = sign.process_message(&m);
    let after = snap(&sign);
    assert!(reply_of(&r) == want_reply);
    assert!(after.address == want.address && after.auto == want.auto);
    assert!(after.state == want.state);
    assert!(after.n_pages == want.n_pages);
    assert!(after.pend_len == want.pend_len);
    assert!(after.chunks == want.chunks);
    assert!(after.width == want.width && after.height == want.height);
    assert!(after.ty == want.ty);
    assert!(inv(&sign));
    // contents: the buffer is the old buffer followed by the chunk (or just the chunk after a flush), checked at an
    // arbitrary index; a page stored by a flush is exactly the buffered bytes (same allocation) with the sign's size
    if let Message::SendData(off, d) = &m {
        if before.state == PIX_PROG {
            let i: usize = kani::any();
            kani::assume(i < after.pend_len);
            let base = if off.0 == 0 { 0 } else { before.pend_len };
            let expect = if i < base { pend[i] } else { d.get()[i - base] };
            assert!(sign.pending_data[i] == expect);
        }
    }
    if after.n_pages > before.n_pages {
        assert!(after.n_pages == before.n_pages + 1);
        let p = &sign.pages[after.n_pages - 1];
        assert!(p.as_bytes().as_ptr() == old_pend_ptr && p.as_bytes().len() == before.pend_len);
        assert!(p.width() == before.width && p.height() == before.height);
        if before.n_pages == 1 {
            assert!(sign.pages[0].as_bytes().as_ptr() == old_page_ptr); // earlier pages stay, in order
        }
    }
    kani::cover!(after.n_pages == 2, "cov_second_page_stored");
    kani::cover!(before.state == PIX_PROG && after.state == PIX_RECV, "cov_pixels_received");
    kani::cover!(before.state == CFG_PROG && after.state == CFG_FAIL, "cov_config_failed");
    kani::cover!(before.state == CFG_PROG && after.ty < 11 && after.chunks == 1, "cov_config_known_type");
    kani::cover!(before.state == SHOW_PROG && after.state == SHOWN, "cov_show_completes");
    kani::cover!(before.state == READY_RESET && after.state == UNCONF, "cov_finish_reset");
    kani::cover!(matches!(m, Message::RequestOperation(..)) && r.is_none() && before.address == 7, "cov_illegal_op_silent");
    kani::cover!(matches!(m, Message::Goodbye(_)) && before.state == PIX_PROG && after.state == UNCONF, "cov_goodbye_resets");
    core::mem::forget(r);
}

/// C13: the initial state satisfies the invariant.
#[kani::proof]
#[kani::unwind(14)]
fn c13_initial_state_satisfies_inv() {
    let s = VirtualSign::new(Address(kani::any()), if kani::any() { PageFlipStyle::Automatic } else { PageFlipStyle::Manual });
    assert!(inv(&s));
    assert!(s.state == State::Unconfigured && s.sign_type.is_none() && s.pages.is_empty());
    kani::cover!(s.address.0 == 0xFFFF, "cov_addr");
}

// ------------------------------------------------------------------------------------------ C14

/// C14 (sign level): a message addressed to another address leaves the whole sign unchanged and gets no reply; an
/// unaddressed data message changes nothing on a sign that is not in a receiving state.
#[kani::proof]
#[kani::unwind(14)]
fn c14_foreign_and_idle_messages_change_nothing() {
    let pend: [u8; PEND_MAX] = kani::any();
    let arr: [u8; DATA_MAX] = kani::any();
    let mut sign = any_sign(&pend, true);
    let before = snap(&sign);
    let old_pend_ptr = sign.pending_data.as_ptr();
    let m = any_message(&arr);
    let addressed_elsewhere = match &m {
        Message::Hello(a) | Message::QueryState(a) | Message::Goodbye(a) | Message::PixelsComplete(a) => a.0 != before.address,
        Message::RequestOperation(a, _) | Message::AckOperation(a, _) | Message::ReportState(a, _) => a.0 != before.address,
        _ => false,
    };
    let unaddressed = matches!(m, Message::SendData(..) | Message::DataChunksSent(..));
    let receiving = before.state == CFG_PROG || before.state == PIX_PROG;
    kani::assume(addressed_elsewhere || (unaddressed && !receiving));
    let r = sign.process_message(&m);
    assert!(r.is_none());
    assert!(snap(&sign) == before);
    assert!(sign.pending_data.as_ptr() == old_pend_ptr);
    kani::cover!(addressed_elsewhere && matches!(m, Message::Goodbye(_)), "cov_foreign_goodbye");
    kani::cover!(unaddressed && before.state == READY_RESET && before.pend_len == 16, "cov_idle_with_stale_buffer");
    kani::cover!(unaddressed && before.state == PIX_RECV, "cov_idle_received");
    core::mem::forget(r);
}

/// C14 (bus level, 2 signs with distinct addresses): the reply is what the addressed sign alone would reply and
/// carries its address; the other sign is untouched by addressed messages; absent address => no reply, no change.
#[kani::proof]
#[kani::unwind(14)]
fn c14_bus_isolation_2() {
    let pend1: [u8; PEND_MAX] = kani::any();
    let pend2: [u8; PEND_MAX] = kani::any();
    let arr: [u8; DATA_MAX] = kani::any();
    // buffers concrete in length (0 / 16 bytes), chunks of 0 or 16 bytes: see c12_bus_never_panics_2
    let s1 = any_sign_opt(&pend1, true, 0, false);
    let s2 = any_sign_opt(&pend2, true, 1, false);
    kani::assume(s1.address != s2.address);
    let (b1, b2) = (snap(&s1), snap(&s2));
    let m = any_message(&arr);
    if let Message::SendData(_, d) = &m {
        kani::assume(d.get().len() == 0 || d.get().len() == 16);
    }
    let target: Option<u16> = match &m {
        Message::Hello(a) | Message::QueryState(a) | Message::Goodbye(a) | Message::PixelsComplete(a) => Some(a.0),
        Message::RequestOperation(a, _) | Message::AckOperation(a, _) | Message::ReportState(a, _) => Some(a.0),
        _ => None,
    };
    let cfg = cfg_of(&arr);
    let (w1, r1) = spec_step(&b1, &m, cfg);
    let (w2, r2) = spec_step(&b2, &m, cfg);
    let mut bus = VirtualSignBus { signs: vec![s1, s2] };
    let r = match bus.process_message(m) {
        Ok(r) => r,
        Err(_) => panic!("virtual bus returned an error"),
    };
    let (a1, a2) = (snap(&bus.signs[0]), snap(&bus.signs[1]));
    match target {
        Some(t) if t == b1.address => {
            assert!(a2 == b2); // the other sign is untouched
            assert!(a1 == w1 && reply_of(&r) == r1);
        }
        Some(t) if t == b2.address => {
            assert!(a1 == b1);
            assert!(a2 == w2 && reply_of(&r) == r2);
        }
        Some(_) => {
            assert!(r.is_none() && a1 == b1 && a2 == b2); // nobody has that address
        }
        None => {
            // unaddressed message: every sign steps on its own, nobody replies
            assert!(r.is_none());
            assert!(a1 == w1 && a2 == w2);
        }
    }
    match reply_of(&r) {
        Reply::Report(a, _) | Reply::Ack(a, _) => assert!(Some(a) == target),
        Reply::None => {}
    }
    kani::cover!(target == Some(b2.address) && r.is_some(), "cov_second_sign_replies");
    kani::cover!(target.is_some() && target != Some(b1.address) && target != Some(b2.address), "cov_absent_address");
    kani::cover!(target.is_none() && b1.state == PIX_PROG && b2.state == PIX_PROG, "cov_both_mid_transfer");
    kani::cover!(target.is_none() && b1.state == CFG_PROG && b2.state == PIX_PROG && a1.chunks == 1 && a2.n_pages == 1, "cov_config_and_pixels_at_once");
    core::mem::forget(r);
}

// ------------------------------------------------------------------------------------------ C19 (virtual sign part)

/// C19: what a virtual sign derives from a supported type's configuration block is that type and its dimensions.
#[kani::proof]
#[kani::unwind(18)]
fn c19_virtual_sign_derives_dimensions() {
    let ti: usize = kani::any();
    kani::assume(ti < 11);
    let t = TYPES[ti];
    let mut sign = VirtualSign::new(Address(kani::any()), PageFlipStyle::Manual);
    sign.state = State::ConfigInProgress;
    let m = match Data::try_new(t.to_bytes()) {
        Ok(d) => Message::SendData(Offset(0), d),
        Err(_) => panic!("try_new"),
    };
    let _ = sign.process_message(&m);
    assert!((sign.width, sign.height) == t.dimensions());
    assert!(sign.sign_type == Some(t));
    kani::cover!(ti == 10, "cov_last_type");
    kani::cover!(sign.width == 160, "cov_160");
}



/// Vacuity canary for this package: must FAIL.
#[kani::proof]
fn canary_must_fail() {
    let x: u8 = kani::any();
    assert!(x != 7);
}
