// Overlaid as a child module of flipdot_testing::virtual_sign_bus. C12 (never panics), C13 (refines the sign-side
// state machine), C14 (isolation), and the virtual-sign part of C19.
// All sign-level harnesses are *per step from an arbitrary state*: the statement is inductive, so every message
// history of any length is covered without exploring sequences.
#![allow(dead_code, unused_imports, unused_variables, unused_results)]
use super::*;
use flipdot_core::{Data, PageId};

const STATES: [State; 13] = [
    State::Unconfigured,
    State::ConfigInProgress,
    State::ConfigReceived,
    State::ConfigFailed,
    State::PixelsInProgress,
    State::PixelsReceived,
    State::PixelsFailed,
    State::PageLoaded,
    State::PageLoadInProgress,
    State::PageShown,
    State::PageShowInProgress,
    State::ShowingPages,
    State::ReadyToReset,
];
const OPS: [Operation; 6] = [
    Operation::ReceiveConfig,
    Operation::ReceivePixels,
    Operation::ShowLoadedPage,
    Operation::LoadNextPage,
    Operation::StartReset,
    Operation::FinishReset,
];
const TYPES: [SignType; 11] = [
    SignType::Max3000Front112x16,
    SignType::Max3000Front98x16,
    SignType::Max3000Side90x7,
    SignType::Max3000Rear30x10,
    SignType::Max3000Rear23x10,
    SignType::Max3000Dash30x7,
    SignType::HorizonFront160x16,
    SignType::HorizonFront140x16,
    SignType::HorizonSide96x8,
    SignType::HorizonRear48x16,
    SignType::HorizonDash40x12,
];

fn state_idx(s: State) -> usize {
    match s {
        State::Unconfigured => 0,
        State::ConfigInProgress => 1,
        State::ConfigReceived => 2,
        State::ConfigFailed => 3,
        State::PixelsInProgress => 4,
        State::PixelsReceived => 5,
        State::PixelsFailed => 6,
        State::PageLoaded => 7,
        State::PageLoadInProgress => 8,
        State::PageShown => 9,
        State::PageShowInProgress => 10,
        State::ShowingPages => 11,
        State::ReadyToReset => 12,
        #[allow(unreachable_patterns)]
        _ => 13,
    }
}
fn type_idx(t: Option<SignType>) -> usize {
    match t {
        None => 11,
        Some(SignType::Max3000Front112x16) => 0,
        Some(SignType::Max3000Front98x16) => 1,
        Some(SignType::Max3000Side90x7) => 2,
        Some(SignType::Max3000Rear30x10) => 3,
        Some(SignType::Max3000Rear23x10) => 4,
        Some(SignType::Max3000Dash30x7) => 5,
        Some(SignType::HorizonFront160x16) => 6,
        Some(SignType::HorizonFront140x16) => 7,
        Some(SignType::HorizonSide96x8) => 8,
        Some(SignType::HorizonRear48x16) => 9,
        Some(SignType::HorizonDash40x12) => 10,
        #[allow(unreachable_patterns)]
        Some(_) => 12,
    }
}

//@include shared_spec.rs

const PEND_MAX: usize = 400; // more than the largest real page image (336 bytes)
const DATA_MAX: usize = 255;

/// An arbitrary sign: any address, flip style, state, recorded type, counter and dimensions; a pending buffer of
/// any length 0..=64 with the contents of `pend`; 0 or 1 stored page.
fn any_sign(pend: &[u8], with_inv: bool) -> VirtualSign<'static> {
    any_sign_opt(pend, with_inv, 2, true)
}
fn any_sign_opt(pend: &[u8], with_inv: bool, pend_mode: u8, allow_page: bool) -> VirtualSign<'static> {
    let si: usize = kani::any();
    kani::assume(si < 13);
    let ti: usize = kani::any();
    kani::assume(ti < 12);
    let n: usize = match pend_mode { 0 => 0, 1 => 16, _ => kani::any() };
    kani::assume(n <= pend.len());
    let width: u32 = kani::any();
    let height: u32 = kani::any();
    let have_page: bool = allow_page && kani::any();
    let mut pages = Vec::with_capacity(2); // room for the page a flush may add: no reallocation of the page vector
    if have_page {
        if with_inv {
            // a stored page has the sign's dimensions; keep it small so that it can be allocated concretely
            kani::assume(width == 2 && height == 8);
        }
        pages.push(Page::new(PageId(kani::any()), 2, 8));
    }
    // built from VirtualSign::new and field assignments (not a struct literal): a field added to VirtualSign by a
    // later change keeps its initial value and does not break this harness
    let mut s = VirtualSign::new(Address(kani::any()), if kani::any() { PageFlipStyle::Automatic } else { PageFlipStyle::Manual });
    s.state = STATES[si];
    s.pages = pages;
    s.pending_data = if pend_mode == 0 { Vec::new() } else if pend_mode == 1 { pend[..16].to_vec() } else { pend[..n].to_vec() };
    s.data_chunks = kani::any();
    s.width = width;
    s.height = height;
    s.sign_type = if ti < 11 { Some(TYPES[ti]) } else { None };
    if with_inv {
        kani::assume(inv(&s));
    }
    s
}

/// Inductive invariant used by C13/C14 (proved preserved by every step, and true initially).
fn inv(s: &VirtualSign<'_>) -> bool {
    // state-level conjuncts (counter hygiene, Unconfigured => blank, no pages in the configuration states): snap_inv
    // plus: a stored page has exactly the configured size
    let pages_ok = s.pages.is_empty() || (s.pages[0].width() == s.width && s.pages[0].height() == s.height && s.pages[0].as_bytes().len() == padded_len(s.width, s.height));
    snap_inv(&snap(s)) && pages_ok
}

/// kind 0..=9; the data of a SendData message is a prefix of `arr`
fn any_message<'a>(arr: &'a [u8; DATA_MAX]) -> Message<'a> {
    let kind: u8 = kani::any();
    let a: u16 = kani::any();
    let si: usize = kani::any();
    let oi: usize = kani::any();
    kani::assume(si < 13 && oi < 6);
    match kind {
        0 => {
            let n: usize = kani::any();
            kani::assume(n <= DATA_MAX);
            match Data::try_new(&arr[..n]) {
                Ok(d) => Message::SendData(Offset(a), d),
                Err(e) => {
            core::mem::forget(e); // never drop an error value in a harness: its drop glue drags in every dyn Error
            panic!("try_new")
        }
            }
        }
        1 => Message::DataChunksSent(ChunkCount(a)),
        2 => Message::Hello(Address(a)),
        3 => Message::QueryState(Address(a)),
        4 => Message::ReportState(Address(a), STATES[si]),
        5 => Message::RequestOperation(Address(a), OPS[oi]),
        6 => Message::AckOperation(Address(a), OPS[oi]),
        7 => Message::PixelsComplete(Address(a)),
        8 => Message::Goodbye(Address(a)),
        _ => {
            let n: usize = kani::any();
            kani::assume(n <= 3);
            match Data::try_new(&arr[..n]) {
                Ok(d) => Message::Unknown(flipdot_core::Frame::new(Address(a), flipdot_core::MsgType(kani::any()), d)),
                Err(e) => {
            core::mem::forget(e); // never drop an error value in a harness: its drop glue drags in every dyn Error
            panic!("try_new")
        }
            }
        }
    }
}

// ------------------------------------------------------------------------------------------ C12

/// C12: one step from ANY state (no invariant assumed) with ANY message returns normally.
#[kani::proof]
#[kani::unwind(14)]
fn c12_step_never_panics() {
    let pend: [u8; PEND_MAX] = kani::any();
    c12_step(&pend);
}

fn c12_step(pend: &[u8]) {
    let arr: [u8; DATA_MAX] = kani::any();
    let mut sign = any_sign(pend, false);
    let before_state = sign.state;
    let before_pages = sign.pages.len();
    let m = any_message(&arr);
    let is_data = matches!(m, Message::SendData(..));
    let is_count = matches!(m, Message::DataChunksSent(..));
    let r = sign.process_message(&m);
    kani::cover!(is_data && before_state == State::ConfigInProgress && sign.width > 255, "cov_config_width_over_255");
    kani::cover!(is_data && before_state == State::PixelsInProgress && sign.pages.len() > before_pages, "cov_flush_stored_page");
    kani::cover!(is_data && before_state == State::PixelsInProgress && sign.pending_data.len() > PEND_MAX + 200, "cov_long_pending");
    kani::cover!(is_count && before_state == State::PixelsInProgress && sign.state == State::PixelsFailed, "cov_failed");
    kani::cover!(is_count && before_state == State::PixelsInProgress && sign.state == State::PixelsReceived && sign.pages.len() == before_pages, "cov_received_malformed_dropped");
    kani::cover!(r.is_some(), "cov_reply");
    core::mem::forget(r);
}

/// C12 (configuration digestion): any 16-byte block in ConfigInProgress is digested without overflow.
#[kani::proof]
#[kani::unwind(18)]
fn c12_config_block_arbitrary_fields() {
    let block: [u8; 16] = kani::any();
    let mut sign = VirtualSign::new(Address(kani::any()), PageFlipStyle::Manual);
    sign.state = State::ConfigInProgress;
    let (w0, h0): (u32, u32) = (kani::any(), kani::any()); // left behind by an earlier configuration attempt
    sign.width = w0;
    sign.height = h0;
    let m = match Data::try_new(&block[..]) {
        Ok(d) => Message::SendData(Offset(0), d),
        Err(e) => {
            core::mem::forget(e); // never drop an error value in a harness: its drop glue drags in every dyn Error
            panic!("try_new")
        }
    };
    let r = sign.process_message(&m);
    assert!(r.is_none());
    if block[0] == 0x04 {
        assert!(sign.width == u32::from(block[5]) + u32::from(block[6]) + u32::from(block[7]) + u32::from(block[8]));
        assert!(sign.height == u32::from(block[4]));
        assert!(sign.data_chunks == 1);
    } else if block[0] == 0x08 {
        assert!(sign.width == u32::from(block[7]) && sign.height == u32::from(block[5]));
        assert!(sign.data_chunks == 1);
    } else {
        assert!(sign.width == w0 && sign.height == h0 && sign.data_chunks == 0 && sign.sign_type.is_none());
    }
    kani::cover!(sign.width == 1020, "cov_max_width");
    kani::cover!(sign.sign_type.is_some(), "cov_known_type");
    kani::cover!(block[0] == 0x08 && sign.sign_type.is_none(), "cov_unknown_horizon");
}

// ------------------------------------------------------------------------------------------ C13

fn snap(s: &VirtualSign<'_>) -> Snap {
    Snap {
        address: s.address.0,
        auto: s.flip_style == PageFlipStyle::Automatic,
        state: state_idx(s.state),
        n_pages: s.pages.len(),
        pend_len: s.pending_data.len(),
        chunks: s.data_chunks,
        width: s.width,
        height: s.height,
        ty: type_idx(s.sign_type),
    }
}

fn reply_of(r: &Option<Message<'_>>) -> Reply {
    match r {
        None => Reply::None,
        Some(Message::ReportState(Address(a), s)) => Reply::Report(*a, state_idx(*s)),
        Some(Message::AckOperation(Address(a), o)) => Reply::Ack(
            *a,
            match o {
                Operation::ReceiveConfig => 0,
                Operation::ReceivePixels => 1,
                Operation::ShowLoadedPage => 2,
                Operation::LoadNextPage => 3,
                Operation::StartReset => 4,
                Operation::FinishReset => 5,
                #[allow(unreachable_patterns)]
                _ => 6,
            },
        ),
        Some(_) => Reply::Ack(0xFFFF, 99),
    }
}

/// what the documentation says a configuration block means (C19): family, width, height
fn cfg_of(arr: &[u8; DATA_MAX]) -> (u8, u32, u32, usize) {
    let (w, h) = match arr[0] {
        0x04 => (u32::from(arr[5]) + u32::from(arr[6]) + u32::from(arr[7]) + u32::from(arr[8]), u32::from(arr[4])),
        0x08 => (u32::from(arr[7]), u32::from(arr[5])),
        _ => (0, 0),
    };
    // the recorded type: the supported type with this family and id, provided the size fields agree with it
    let mut ty = 11;
    let mut i = 0;
    while i < 11 {
        let b = TYPES[i].to_bytes();
        if b[0] == arr[0] && b[1] == arr[1] && TYPES[i].dimensions() == (w, h) {
            ty = i;
        }
        i += 1;
    }
    (arr[0], w, h, ty)
}

/// C13: from every state satisfying the invariant, on every message, the real step equals the specified step
/// (reply and successor state), buffers and pages are assembled in arrival order, and the invariant is preserved.
#[kani::proof]
#[kani::unwind(14)]
fn c13_step_refines_spec() {
    let pend: [u8; PEND_MAX] = kani::any();
    c13_step(&pend);
}

fn c13_step(pend: &[u8]) {
    let arr: [u8; DATA_MAX] = kani::any();
    let mut sign = any_sign(pend, true);
    let before = snap(&sign);
    let old_page_ptr = if sign.pages.is_empty() { core::ptr::null() } else { sign.pages[0].as_bytes().as_ptr() };
    let old_pend_ptr = sign.pending_data.as_ptr();
    let m = any_message(&arr);
    let (want, want_reply) = spec_step(&before, &m, cfg_of(&arr));
    let r = sign.process_message(&m);
    let after = snap(&sign);
    assert!(reply_of(&r) == want_reply);
    assert!(after.address == want.address && after.auto == want.auto);
    assert!(after.state == want.state);
    assert!(after.n_pages == want.n_pages);
    assert!(after.pend_len == want.pend_len);
    assert!(after.chunks == want.chunks);
    assert!(after.width == want.width && after.height == want.height);
    assert!(after.ty == want.ty);
    assert!(inv(&sign));
    // contents: the buffer is the old buffer followed by the chunk (or just the chunk after a flush), checked at an
    // arbitrary index; a page stored by a flush is exactly the buffered bytes (same allocation) with the sign's size
    if let Message::SendData(off, d) = &m {
        if before.state == PIX_PROG {
            let i: usize = kani::any();
            kani::assume(i < after.pend_len);
            let base = if off.0 == 0 { 0 } else { before.pend_len };
            let expect = if i < base { pend[i] } else { d.get()[i - base] };
            assert!(sign.pending_data[i] == expect);
        }
    }
    if after.n_pages > before.n_pages {
        assert!(after.n_pages == before.n_pages + 1);
        let p = &sign.pages[after.n_pages - 1];
        assert!(p.as_bytes().as_ptr() == old_pend_ptr && p.as_bytes().len() == before.pend_len);
        assert!(p.width() == before.width && p.height() == before.height);
        if before.n_pages == 1 {
            assert!(sign.pages[0].as_bytes().as_ptr() == old_page_ptr); // earlier pages stay, in order
        }
    }
    kani::cover!(after.n_pages == 2, "cov_second_page_stored");
    kani::cover!(before.state == PIX_PROG && after.state == PIX_RECV, "cov_pixels_received");
    kani::cover!(before.state == CFG_PROG && after.state == CFG_FAIL, "cov_config_failed");
    kani::cover!(before.state == CFG_PROG && after.ty < 11 && after.chunks == 1, "cov_config_known_type");
    kani::cover!(before.state == SHOW_PROG && after.state == SHOWN, "cov_show_completes");
    kani::cover!(before.state == READY_RESET && after.state == UNCONF, "cov_finish_reset");
    kani::cover!(matches!(m, Message::RequestOperation(..)) && r.is_none() && before.address == 7, "cov_illegal_op_silent");
    kani::cover!(matches!(m, Message::Goodbye(_)) && before.state == PIX_PROG && after.state == UNCONF, "cov_goodbye_resets");
    core::mem::forget(r);
}

/// the documented sizes used by the specification agree with SignType::dimensions() (all 11 types)
#[kani::proof]
#[kani::unwind(14)]
fn c13_spec_type_sizes_agree() {
    let i: usize = kani::any();
    kani::assume(i < 11);
    assert!(TYPES[i].dimensions() == TYPE_DIMS[i]);
    kani::cover!(i == 10, "cov_last");
}

/// C13: the initial state satisfies the invariant.
#[kani::proof]
#[kani::unwind(14)]
fn c13_initial_state_satisfies_inv() {
    let s = VirtualSign::new(Address(kani::any()), if kani::any() { PageFlipStyle::Automatic } else { PageFlipStyle::Manual });
    assert!(inv(&s));
    assert!(s.state == State::Unconfigured && s.sign_type.is_none() && s.pages.is_empty());
    kani::cover!(s.address.0 == 0xFFFF, "cov_addr");
}

// ------------------------------------------------------------------------------------------ C14

/// C14 (sign level): a message addressed to another address leaves the whole sign unchanged and gets no reply; an
/// unaddressed data message changes nothing on a sign that is not in a receiving state.
#[kani::proof]
#[kani::unwind(14)]
fn c14_foreign_and_idle_messages_change_nothing() {
    let pend: [u8; PEND_MAX] = kani::any();
    let arr: [u8; DATA_MAX] = kani::any();
    let mut sign = any_sign(&pend, true);
    let before = snap(&sign);
    let old_pend_ptr = sign.pending_data.as_ptr();
    let m = any_message(&arr);
    let addressed_elsewhere = match &m {
        Message::Hello(a) | Message::QueryState(a) | Message::Goodbye(a) | Message::PixelsComplete(a) => a.0 != before.address,
        Message::RequestOperation(a, _) | Message::AckOperation(a, _) | Message::ReportState(a, _) => a.0 != before.address,
        _ => false,
    };
    let unaddressed = matches!(m, Message::SendData(..) | Message::DataChunksSent(..));
    let receiving = before.state == CFG_PROG || before.state == PIX_PROG;
    kani::assume(addressed_elsewhere || (unaddressed && !receiving));
    let r = sign.process_message(&m);
    assert!(r.is_none());
    assert!(snap(&sign) == before);
    assert!(sign.pending_data.as_ptr() == old_pend_ptr);
    kani::cover!(addressed_elsewhere && matches!(m, Message::Goodbye(_)), "cov_foreign_goodbye");
    kani::cover!(unaddressed && before.state == READY_RESET && before.pend_len == 16, "cov_idle_with_stale_buffer");
    kani::cover!(unaddressed && before.state == PIX_RECV, "cov_idle_received");
    core::mem::forget(r);
}

// ---- bus level, modular: the real VirtualSignBus::process_message is checked against the CONTRACT of the sign step
// (the callee's body is replaced by a stub that behaves like any sign allowed by the sign-level obligations):
//   (1) a message addressed to another address: no reply, nothing changes      [c14_foreign_and_idle_messages_change_nothing]
//   (2) a message addressed to this sign: any reply, but it carries this sign's address; the sign may change   [c13_step_refines_spec]
//   (3) an unaddressed message (SendData, DataChunksSent, Unknown): no reply; the sign may change              [c13_step_refines_spec]
// Ghost encoding: `data_chunks` counts deliveries to a sign, `width` counts deliveries that were allowed to change it.
static mut STUB_REPLY_KIND: [u8; 4] = [0; 4];
#[allow(unsafe_code)]
fn stub_sign_step<'s, 'a>(sign: &mut VirtualSign<'s>, message: &Message<'_>) -> Option<Message<'a>>
where
    's: 's,
{
    sign.data_chunks = sign.data_chunks.wrapping_add(1);
    let target: Option<u16> = match message {
        Message::Hello(a) | Message::QueryState(a) | Message::Goodbye(a) | Message::PixelsComplete(a) => Some(a.0),
        Message::RequestOperation(a, _) | Message::AckOperation(a, _) | Message::ReportState(a, _) => Some(a.0),
        _ => None,
    };
    match target {
        Some(t) if t != sign.address.0 => None, // (1)
        Some(_) => {
            sign.width += 1; // (2) may change
            let k: u8 = kani::any();
            match k {
                0 => None,
                1 => Some(Message::ReportState(sign.address, STATES[(kani::any::<u8>() % 13) as usize])),
                _ => Some(Message::AckOperation(sign.address, OPS[(kani::any::<u8>() % 6) as usize])),
            }
        }
        None => {
            sign.width += 1; // (3) may change, never replies
            None
        }
    }
}

/// C14 + C12 at bus level, population of 4 signs with pairwise distinct addresses (1..3 signs are the same statement
/// with fewer loop iterations): an addressed message is delivered until the addressee replies, touches no other sign's
/// state, the reply carries the addressee's address; an absent address gets no reply and changes nothing; unaddressed
/// messages reach every sign and get no reply; the bus never fails.
#[kani::proof]
#[kani::unwind(6)]
#[kani::stub(VirtualSign::process_message, stub_sign_step)]
fn c14_bus_isolation_modular_4() {
    let arr: [u8; DATA_MAX] = kani::any();
    let addrs: [u16; 4] = kani::any();
    kani::assume(addrs[0] != addrs[1] && addrs[0] != addrs[2] && addrs[0] != addrs[3] && addrs[1] != addrs[2] && addrs[1] != addrs[3] && addrs[2] != addrs[3]);
    let n: usize = kani::any();
    kani::assume(n >= 1 && n <= 4);
    let mut signs = Vec::with_capacity(4);
    let mut i = 0;
    while i < n {
        signs.push(VirtualSign::new(Address(addrs[i]), if kani::any() { PageFlipStyle::Automatic } else { PageFlipStyle::Manual }));
        i += 1;
    }
    let mut bus = VirtualSignBus::new(signs);
    let m = any_message(&arr);
    let target: Option<u16> = match &m {
        Message::Hello(a) | Message::QueryState(a) | Message::Goodbye(a) | Message::PixelsComplete(a) => Some(a.0),
        Message::RequestOperation(a, _) | Message::AckOperation(a, _) | Message::ReportState(a, _) => Some(a.0),
        _ => None,
    };
    let r = match bus.process_message(m) {
        Ok(r) => r,
        Err(e) => {
            core::mem::forget(e);
            panic!("virtual bus returned an error")
        }
    };
    let reply_addr: Option<u16> = match &r {
        Some(Message::ReportState(a, _)) | Some(Message::AckOperation(a, _)) => Some(a.0),
        Some(_) => Some(0xFFFF),
        None => None,
    };
    let mut j = 0;
    let mut addressee_present = false;
    while j < n {
        let s = &bus.signs[j];
        let is_addressee = target == Some(s.address.0);
        if is_addressee {
            addressee_present = true;
        }
        match target {
            Some(_) => {
                // only the addressee may have been changed (ghost: width counts permitted changes)
                assert!(s.width == if is_addressee { 1 } else { 0 });
            }
            None => {
                assert!(s.width == 1 && s.data_chunks == 1); // delivered to every sign exactly once
            }
        }
        assert!(s.data_chunks <= 1); // nobody sees a message twice
        j += 1;
    }
    match target {
        Some(t) => {
            if addressee_present {
                assert!(reply_addr.is_none() || reply_addr == Some(t)); // a reply comes only from the addressed sign
            } else {
                assert!(r.is_none()); // nobody has that address: no reply
            }
        }
        None => assert!(r.is_none()),
    }
    kani::cover!(n == 4 && target == Some(addrs[3]) && r.is_some(), "cov_last_sign_replies");
    kani::cover!(n == 4 && target.is_some() && !addressee_present, "cov_absent_address");
    kani::cover!(n == 1 && target.is_none(), "cov_single_sign_unaddressed");
    kani::cover!(n == 3 && target == Some(addrs[0]) && r.is_none(), "cov_addressee_silent");
    core::mem::forget(r);
}

// ------------------------------------------------------------------------------------------ C19 (virtual sign part)

/// C19: what a virtual sign derives from a supported type's configuration block is that type and its dimensions.
#[kani::proof]
#[kani::unwind(18)]
fn c19_virtual_sign_derives_dimensions() {
    let ti: usize = kani::any();
    kani::assume(ti < 11);
    let t = TYPES[ti];
    let mut sign = VirtualSign::new(Address(kani::any()), PageFlipStyle::Manual);
    sign.state = State::ConfigInProgress;
    // whatever an earlier (failed / repeated) configuration left behind
    sign.width = kani::any();
    sign.height = kani::any();
    let prev: usize = kani::any();
    kani::assume(prev < 12);
    sign.sign_type = if prev < 11 { Some(TYPES[prev]) } else { None };
    let m = match Data::try_new(t.to_bytes()) {
        Ok(d) => Message::SendData(Offset(0), d),
        Err(e) => {
            core::mem::forget(e); // never drop an error value in a harness: its drop glue drags in every dyn Error
            panic!("try_new")
        }
    };
    let _ = sign.process_message(&m);
    assert!((sign.width, sign.height) == t.dimensions());
    assert!(sign.sign_type == Some(t));
    kani::cover!(ti == 10, "cov_last_type");
    kani::cover!(sign.width == 160, "cov_160");
}



/// Vacuity canary for this package: must FAIL.
#[kani::proof]
fn canary_must_fail() {
    let x: u8 = kani::any();
    assert!(x != 7);
}
