// Overlaid as a child module of flipdot_serial::serial_sign_bus (FRAGILE overlay, see lib/kani.py FRAGILE_OVERLAYS).
// The only harness that calls the PRIVATE classifier functions response_expected / delay_after_send /
// delay_after_receive directly. If a change to their signatures makes this module stop compiling, the overlay is
// dropped and the rest of the package's harnesses (which observe the same decisions through process_message: a read
// iff a reply is due, sleep(30) iff data, sleep(100) iff an in-progress report) still run; this harness is then
// reported as an undecided part.
#![allow(unsafe_code, dead_code, unused_imports, static_mut_refs)]
use super::*;
use flipdot_core::{Address, ChunkCount, Data, FrameError, MsgType, Offset, Operation};

const STATES: [State; 13] = [
    State::Unconfigured,
    State::ConfigInProgress,
    State::ConfigReceived,
    State::ConfigFailed,
    State::PixelsInProgress,
    State::PixelsReceived,
    State::PixelsFailed,
    State::PageLoaded,
    State::PageLoadInProgress,
    State::PageShown,
    State::PageShowInProgress,
    State::ShowingPages,
    State::ReadyToReset,
];
const OPS: [Operation; 6] = [
    Operation::ReceiveConfig,
    Operation::ReceivePixels,
    Operation::ShowLoadedPage,
    Operation::LoadNextPage,
    Operation::StartReset,
    Operation::FinishReset,
];

fn any_message<'a>(arr: &'a [u8; 255]) -> Message<'a> {
    any_message_of(arr, 0x3FF)
}
/// kinds: bit k set = message kind k allowed (0 SendData, 1 DataChunksSent, 2 Hello, 3 QueryState, 4 ReportState,
/// 5 RequestOperation, 6 AckOperation, 7 PixelsComplete, 8 Goodbye, 9 Unknown)
fn any_message_of<'a>(arr: &'a [u8; 255], kinds: u16) -> Message<'a> {
    let kind: u8 = kani::any();
    kani::assume(kind <= 9 && (kinds >> kind) & 1 == 1);
    let a: u16 = kani::any();
    let si: usize = kani::any();
    let oi: usize = kani::any();
    kani::assume(si < 13 && oi < 6);
    match kind {
        0 => {
            let n: usize = kani::any();
            kani::assume(n <= 255);
            match Data::try_new(&arr[..n]) {
                Ok(d) => Message::SendData(Offset(a), d),
                Err(e) => {
            core::mem::forget(e); // never drop an error value in a harness: its drop glue drags in every dyn Error
            panic!("try_new")
        }
            }
        }
        1 => Message::DataChunksSent(ChunkCount(a)),
        2 => Message::Hello(Address(a)),
        3 => Message::QueryState(Address(a)),
        4 => Message::ReportState(Address(a), STATES[si]),
        5 => Message::RequestOperation(Address(a), OPS[oi]),
        6 => Message::AckOperation(Address(a), OPS[oi]),
        7 => Message::PixelsComplete(Address(a)),
        8 => Message::Goodbye(Address(a)),
        _ => {
            let n: usize = kani::any();
            kani::assume(n <= 255);
            match Data::try_new(&arr[..n]) {
                Ok(d) => Message::Unknown(Frame::new(Address(a), MsgType(kani::any()), d)),
                Err(e) => {
            core::mem::forget(e); // never drop an error value in a harness: its drop glue drags in every dyn Error
            panic!("try_new")
        }
            }
        }
    }
}

/// C16 / C18: the three classifiers, for every message (all kinds, all parameter values, data of any length).
#[kani::proof]
#[kani::unwind(4)]
fn c16_c18_classifiers() {
    let arr: [u8; 255] = kani::any();
    let m = any_message(&arr);
    let reply_due = matches!(m, Message::Hello(_) | Message::QueryState(_) | Message::RequestOperation(_, _));
    assert!(response_expected(&m) == reply_due);
    let is_data = matches!(m, Message::SendData(_, _));
    assert!(delay_after_send(&m) == if is_data { Some(Duration::from_millis(30)) } else { None });
    let in_progress = matches!(m, Message::ReportState(_, State::PageLoadInProgress) | Message::ReportState(_, State::PageShowInProgress));
    assert!(delay_after_receive(&m) == if in_progress { Some(Duration::from_millis(100)) } else { None });
    kani::cover!(reply_due, "cov_reply_due");
    kani::cover!(is_data, "cov_data");
    kani::cover!(in_progress, "cov_in_progress");
    kani::cover!(matches!(m, Message::Goodbye(_)), "cov_goodbye_no_reply");
    kani::cover!(matches!(m, Message::Unknown(_)), "cov_unknown_no_reply");
}

