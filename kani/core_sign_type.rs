// Overlaid as a child module of flipdot_core::sign_type. C19.
#![allow(dead_code, unused_imports, unused_variables, unused_results)]
use super::*;

pub(crate) const ALL: [SignType; 11] = [
    SignType::Max3000Front112x16,
    SignType::Max3000Front98x16,
    SignType::Max3000Side90x7,
    SignType::Max3000Rear30x10,
    SignType::Max3000Rear23x10,
    SignType::Max3000Dash30x7,
    SignType::HorizonFront160x16,
    SignType::HorizonFront140x16,
    SignType::HorizonSide96x8,
    SignType::HorizonRear48x16,
    SignType::HorizonDash40x12,
];

// exhaustive: adding a variant to SignType without extending ALL is a compile error here
fn index_of(t: SignType) -> usize {
    match t {
        SignType::Max3000Front112x16 => 0,
        SignType::Max3000Front98x16 => 1,
        SignType::Max3000Side90x7 => 2,
        SignType::Max3000Rear30x10 => 3,
        SignType::Max3000Rear23x10 => 4,
        SignType::Max3000Dash30x7 => 5,
        SignType::HorizonFront160x16 => 6,
        SignType::HorizonFront140x16 => 7,
        SignType::HorizonSide96x8 => 8,
        SignType::HorizonRear48x16 => 9,
        SignType::HorizonDash40x12 => 10,
    }
}

fn any_type() -> SignType {
    let i: usize = kani::any();
    kani::assume(i < ALL.len());
    assert!(index_of(ALL[i]) == i);
    ALL[i]
}

/// Every supported type: block is 16 bytes, decodes to the same type, and the fields inside agree
/// with dimensions() (formulas from the property statement).
#[kani::proof]
#[kani::unwind(18)]
fn c19_blocks_self_consistent() {
    let t = any_type();
    let b = t.to_bytes();
    assert!(b.len() == 16);
    match SignType::from_bytes(b) {
        Ok(t2) => assert!(t2 == t),
        Err(e) => {
            core::mem::forget(e); // never drop an error value in a harness: its drop glue drags in every dyn Error
            panic!("own configuration block rejected")
        }
    }
    let (w, h) = t.dimensions();
    match b[0] {
        0x04 => {
            assert!(u32::from(b[4]) == h);
            assert!(u32::from(b[5]) + u32::from(b[6]) + u32::from(b[7]) + u32::from(b[8]) == w);
            assert!(u32::from(b[9]) == 8 * ((h + 7) / 8)); // bits per column
        }
        0x08 => {
            assert!(u32::from(b[5]) == h);
            assert!(u32::from(b[7]) == w);
            assert!(u32::from(b[8]) * u32::from(b[10]) + u32::from(b[9]) * u32::from(b[11]) == w);
        }
        _ => panic!("unknown family byte in a supported type's block"),
    }
    kani::cover!(b[0] == 0x04, "cov_max3000");
    kani::cover!(b[0] == 0x08, "cov_horizon");
    kani::cover!(index_of(t) == 10, "cov_last_variant");
}

/// Distinct types have distinct (family, id) — needed for "decodes back to the same type".
#[kani::proof]
#[kani::unwind(18)]
fn c19_family_id_unique() {
    let a = any_type();
    let b = any_type();
    if a != b {
        let (x, y) = (a.to_bytes(), b.to_bytes());
        assert!(x[0] != y[0] || x[1] != y[1]);
    }
    kani::cover!(a != b, "cov_distinct");
}

const MAXLEN: usize = 64;

/// Decoding any byte string (length 0..=64, arbitrary contents): never panics, rejects every length
/// other than 16 with the exact counts, and accepts a 16-byte block exactly when (family, id) are those
/// of a supported type, whatever the other 14 bytes are.
#[kani::proof]
#[kani::unwind(66)]
fn c19_decode_total_and_exact() {
    let arr: [u8; MAXLEN] = kani::any();
    let n: usize = kani::any();
    kani::assume(n <= MAXLEN);
    let r = SignType::from_bytes(&arr[..n]);
    // reference: which supported type has this family/id?
    let mut expect: Option<SignType> = None;
    if n == 16 {
        let mut i = 0;
        while i < ALL.len() {
            let tb = ALL[i].to_bytes();
            if tb[0] == arr[0] && tb[1] == arr[1] {
                expect = Some(ALL[i]);
            }
            i += 1;
        }
    }
    match &r {
        Ok(t) => {
            assert!(n == 16);
            assert!(expect == Some(*t));
        }
        Err(SignTypeError::WrongConfigLength { expected, actual }) => {
            assert!(n != 16);
            assert!(*expected == 16 && *actual == n);
        }
        Err(SignTypeError::UnknownConfig { bytes }) => {
            assert!(n == 16);
            assert!(expect.is_none());
            assert!(bytes.len() == 16);
        }
    }
    kani::cover!(r.is_ok(), "cov_ok");
    kani::cover!(n == 0, "cov_empty");
    kani::cover!(n == 17, "cov_17");
    kani::cover!(n == 16 && r.is_err(), "cov_unknown");
    kani::cover!(n == MAXLEN, "cov_maxlen");
    core::mem::forget(r);
}
