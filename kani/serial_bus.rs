// Overlaid as a child module of flipdot_serial::serial_sign_bus. C16 (one frame out, one frame in iff a reply is due),
// C18 (pacing, over a ghost clock advanced only by thread::sleep) and C20 (port set-up).
//
// C16/C18 orchestration harness: Frame::write, Frame::read and thread::sleep are replaced by contract stubs that
// append to an event log (their own behaviour is the subject of C15 / assumed, see DESIGN.md). Everything else —
// response_expected, delay_after_send, delay_after_receive, Frame::from(Message), Message::from(Frame) and the
// control flow of process_message — is the real code.
#![allow(unsafe_code, dead_code, unused_imports, static_mut_refs)]
use super::*;
use std::cell::Cell;
use flipdot_core::{Address, ChunkCount, Data, FrameError, MsgType, Offset, Operation};
use serial_core::{PortSettings, SerialDevice};
use std::io::{self, Read, Write};

// ----------------------------------------------------------------------------- mock port

pub(crate) struct KPort {
    settings: PortSettings,
    timeout: Option<Duration>,
    fail_read_settings: bool,
    fail_write_settings: bool,
    fail_set_timeout: bool,
    err_kind: u8,
    calls: Cell<[u8; 6]>, // 1 = read_settings, 2 = write_settings, 3 = set_timeout
    ncalls: Cell<usize>,
}

fn any_settings() -> PortSettings {
    let b: u8 = kani::any();
    kani::assume(b < 12);
    let baud_rate = match b {
        0 => serial_core::Baud110,
        1 => serial_core::Baud300,
        2 => serial_core::Baud600,
        3 => serial_core::Baud1200,
        4 => serial_core::Baud2400,
        5 => serial_core::Baud4800,
        6 => serial_core::Baud9600,
        7 => serial_core::Baud19200,
        8 => serial_core::Baud38400,
        9 => serial_core::Baud57600,
        10 => serial_core::Baud115200,
        _ => serial_core::BaudOther(kani::any()),
    };
    let c: u8 = kani::any();
    kani::assume(c < 4);
    let char_size = match c {
        0 => serial_core::Bits5,
        1 => serial_core::Bits6,
        2 => serial_core::Bits7,
        _ => serial_core::Bits8,
    };
    let p: u8 = kani::any();
    kani::assume(p < 3);
    let parity = match p {
        0 => serial_core::ParityNone,
        1 => serial_core::ParityOdd,
        _ => serial_core::ParityEven,
    };
    let stop_bits = if kani::any() { serial_core::Stop1 } else { serial_core::Stop2 };
    let f: u8 = kani::any();
    kani::assume(f < 3);
    let flow_control = match f {
        0 => serial_core::FlowNone,
        1 => serial_core::FlowSoftware,
        _ => serial_core::FlowHardware,
    };
    PortSettings { baud_rate, char_size, parity, stop_bits, flow_control }
}

impl KPort {
    /// the error a refusing device call returns: any kind, including the io kinds a driver reports for a busy or
    /// interrupted device (a constructor must not mistake a persistent refusal of that kind for success)
    fn refusal(&self, what: &'static str) -> serial_core::Error {
        let kind = match self.err_kind % 6 {
            0 => serial_core::ErrorKind::NoDevice,
            1 => serial_core::ErrorKind::InvalidInput,
            2 => serial_core::ErrorKind::Io(io::ErrorKind::Interrupted),
            3 => serial_core::ErrorKind::Io(io::ErrorKind::WouldBlock),
            4 => serial_core::ErrorKind::Io(io::ErrorKind::TimedOut),
            _ => serial_core::ErrorKind::Io(io::ErrorKind::Other),
        };
        serial_core::Error::new(kind, what)
    }
    fn any() -> Self {
        KPort {
            settings: any_settings(),
            timeout: None,
            fail_read_settings: kani::any(),
            fail_write_settings: kani::any(),
            fail_set_timeout: kani::any(), err_kind: kani::any(),
            calls: Cell::new([0; 6]),
            ncalls: Cell::new(0),
        }
    }
    fn log(&self, c: u8) {
        let n = self.ncalls.get();
        if n < 6 {
            let mut a = self.calls.get();
            a[n] = c;
            self.calls.set(a);
        }
        self.ncalls.set(n + 1);
    }
}

impl Read for KPort {
    fn read(&mut self, _buf: &mut [u8]) -> io::Result<usize> {
        Ok(0)
    }
}
impl Write for KPort {
    fn write(&mut self, buf: &[u8]) -> io::Result<usize> {
        Ok(buf.len())
    }
    fn flush(&mut self) -> io::Result<()> {
        Ok(())
    }
}
impl SerialDevice for KPort {
    type Settings = PortSettings;
    fn read_settings(&self) -> serial_core::Result<PortSettings> {
        self.log(1);
        if self.fail_read_settings {
            Err(self.refusal("read_settings refused"))
        } else {
            Ok(self.settings)
        }
    }
    fn write_settings(&mut self, s: &PortSettings) -> serial_core::Result<()> {
        self.log(2);
        if self.fail_write_settings {
            Err(self.refusal("write_settings refused"))
        } else {
            self.settings = *s;
            Ok(())
        }
    }
    fn timeout(&self) -> Duration {
        match self.timeout {
            Some(t) => t,
            None => Duration::from_millis(0),
        }
    }
    fn set_timeout(&mut self, t: Duration) -> serial_core::Result<()> {
        self.log(3);
        if self.fail_set_timeout {
            Err(self.refusal("set_timeout refused"))
        } else {
            self.timeout = Some(t);
            Ok(())
        }
    }
    fn set_rts(&mut self, _: bool) -> serial_core::Result<()> {
        Ok(())
    }
    fn set_dtr(&mut self, _: bool) -> serial_core::Result<()> {
        Ok(())
    }
    fn read_cts(&mut self) -> serial_core::Result<bool> {
        Ok(false)
    }
    fn read_dsr(&mut self) -> serial_core::Result<bool> {
        Ok(false)
    }
    fn read_ri(&mut self) -> serial_core::Result<bool> {
        Ok(false)
    }
    fn read_cd(&mut self) -> serial_core::Result<bool> {
        Ok(false)
    }
}

fn is_target_settings(s: &PortSettings) -> bool {
    s.baud_rate == serial_core::Baud19200
        && s.char_size == serial_core::Bits8
        && s.parity == serial_core::ParityNone
        && s.stop_bits == serial_core::Stop1
        && s.flow_control == serial_core::FlowNone
}

/// C20 for configure_port: whatever the prior settings, Ok <=> no device call failed; Ok => 19200 8N1 no flow control
/// and the caller's timeout applied; a failure is returned, nothing follows the failing call, and a refused
/// write_settings leaves the old settings in place.
#[kani::proof]
#[kani::unwind(8)]
fn c20_configure_port() {
    let mut port = KPort::any();
    let prior = port.settings;
    // the caller's timeout: ANY Duration (whole seconds and sub-second part both arbitrary)
    let secs: u64 = kani::any();
    let nanos: u32 = kani::any();
    kani::assume(nanos < 1_000_000_000);
    let t = Duration::new(secs, nanos);
    let r = crate::serial_port::configure_port(&mut port, t);
    let no_failure = !port.fail_read_settings && !port.fail_write_settings && !port.fail_set_timeout;
    match &r {
        Ok(()) => {
            // the device calls of the mock fail persistently, so success means none of them refuses
            assert!(no_failure);
            assert!(is_target_settings(&port.settings));
            assert!(port.timeout == Some(t)); // exactly the caller's value
        }
        // which calls were made before giving up, and how often, is not part of the property (a retry is allowed)
        Err(_) => assert!(!no_failure),
    }
    kani::cover!(r.is_ok() && matches!(prior.baud_rate, serial_core::BaudOther(_)), "cov_ok_from_other_baud");
    kani::cover!(r.is_ok() && prior.flow_control == serial_core::FlowHardware && prior.baud_rate == serial_core::Baud19200, "cov_ok_from_19200_hw_flow");
    kani::cover!(r.is_err() && port.fail_set_timeout && !port.fail_read_settings && !port.fail_write_settings, "cov_timeout_refused");
    kani::cover!(r.is_err() && port.fail_read_settings && port.err_kind % 6 == 2, "cov_read_settings_interrupted");
    kani::cover!(r.is_ok() && nanos % 1_000_000 != 0, "cov_sub_millisecond_timeout");
}

/// C20 for SerialSignBus::try_new: a bus object exists only on a fully configured port, with the 5 s timeout.
#[kani::proof]
#[kani::unwind(8)]
fn c20_serial_sign_bus_try_new() {
    let port = KPort::any();
    let no_failure = !port.fail_read_settings && !port.fail_write_settings && !port.fail_set_timeout;
    let kind = port.err_kind % 6;
    let r = SerialSignBus::try_new(port);
    match &r {
        Ok(bus) => {
            assert!(no_failure);
            assert!(is_target_settings(&bus.port().settings));
            assert!(bus.port().timeout == Some(Duration::from_secs(5)));
        }
        Err(_) => assert!(!no_failure),
    }
    kani::cover!(r.is_ok(), "cov_ok");
    kani::cover!(r.is_err(), "cov_err");
    kani::cover!(r.is_err() && (kind == 2 || kind == 3), "cov_err_transient_kind_persisting");
}

// ----------------------------------------------------------------------------- C16 / C18

const STATES: [State; 13] = [
    State::Unconfigured,
    State::ConfigInProgress,
    State::ConfigReceived,
    State::ConfigFailed,
    State::PixelsInProgress,
    State::PixelsReceived,
    State::PixelsFailed,
    State::PageLoaded,
    State::PageLoadInProgress,
    State::PageShown,
    State::PageShowInProgress,
    State::ShowingPages,
    State::ReadyToReset,
];
const OPS: [Operation; 6] = [
    Operation::ReceiveConfig,
    Operation::ReceivePixels,
    Operation::ShowLoadedPage,
    Operation::LoadNextPage,
    Operation::StartReset,
    Operation::FinishReset,
];

fn any_message<'a>(arr: &'a [u8; 255]) -> Message<'a> {
    any_message_of(arr, 0x3FF)
}
/// kinds: bit k set = message kind k allowed (0 SendData, 1 DataChunksSent, 2 Hello, 3 QueryState, 4 ReportState,
/// 5 RequestOperation, 6 AckOperation, 7 PixelsComplete, 8 Goodbye, 9 Unknown)
fn any_message_of<'a>(arr: &'a [u8; 255], kinds: u16) -> Message<'a> {
    let kind: u8 = kani::any();
    kani::assume(kind <= 9 && (kinds >> kind) & 1 == 1);
    let a: u16 = kani::any();
    let si: usize = kani::any();
    let oi: usize = kani::any();
    kani::assume(si < 13 && oi < 6);
    match kind {
        0 => {
            let n: usize = kani::any();
            kani::assume(n <= 255);
            match Data::try_new(&arr[..n]) {
                Ok(d) => Message::SendData(Offset(a), d),
                Err(e) => {
            core::mem::forget(e); // never drop an error value in a harness: its drop glue drags in every dyn Error
            panic!("try_new")
        }
            }
        }
        1 => Message::DataChunksSent(ChunkCount(a)),
        2 => Message::Hello(Address(a)),
        3 => Message::QueryState(Address(a)),
        4 => Message::ReportState(Address(a), STATES[si]),
        5 => Message::RequestOperation(Address(a), OPS[oi]),
        6 => Message::AckOperation(Address(a), OPS[oi]),
        7 => Message::PixelsComplete(Address(a)),
        8 => Message::Goodbye(Address(a)),
        _ => {
            let n: usize = kani::any();
            kani::assume(n <= 255);
            match Data::try_new(&arr[..n]) {
                Ok(d) => Message::Unknown(Frame::new(Address(a), MsgType(kani::any()), d)),
                Err(e) => {
            core::mem::forget(e); // never drop an error value in a harness: its drop glue drags in every dyn Error
            panic!("try_new")
        }
            }
        }
    }
}

// event log written by the stubs
#[derive(Copy, Clone, PartialEq, Eq)]
enum Ev {
    None,
    Write { addr: u16, ty: u8, ptr: *const u8, len: usize, b0: u8 },
    Read,
    Sleep(u64),
}
static mut EVENTS: [Ev; 6] = [Ev::None; 6];
static mut NEV: usize = 0;
static mut WRITE_FAILS: bool = false;
static mut READ_FAILS: bool = false;
static mut REPLY_ADDR: u16 = 0;
static mut REPLY_TYPE: u8 = 0;
static mut REPLY_LEN: usize = 0;
static mut REPLY_DATA: [u8; 4] = [0; 4];

fn push(e: Ev) {
    unsafe {
        if NEV < 6 {
            EVENTS[NEV] = e;
        }
        NEV += 1;
    }
}

// contract stub for Frame::write: records the frame it was asked to write; fails iff WRITE_FAILS
#[allow(unsafe_code)]
fn stub_frame_write<'a, W: Write>(f: &Frame<'a>, _writer: &mut W) -> Result<(), FrameError>
where
    'a: 'a,
{
    let d = f.data();
    push(Ev::Write { addr: f.address().0, ty: f.message_type().0, ptr: d.as_ptr(), len: d.len(), b0: if d.len() > 0 { d[0] } else { 0 } });
    if unsafe { WRITE_FAILS } {
        Err(FrameError::InvalidFrame { data: Vec::new() })
    } else {
        Ok(())
    }
}

// contract stub for Frame::read: one read event; returns an arbitrary frame (REPLY_*) or fails iff READ_FAILS
#[allow(unsafe_code)]
fn stub_frame_read<'a, R: Read>(_reader: &mut R) -> Result<Frame<'a>, FrameError>
where
    'a: 'a,
{
    push(Ev::Read);
    unsafe {
        if READ_FAILS {
            return Err(FrameError::InvalidFrame { data: Vec::new() });
        }
        let mut v = REPLY_DATA.to_vec();
        v.truncate(REPLY_LEN);
        match Data::try_new(v) {
            Ok(d) => Ok(Frame::new(Address(REPLY_ADDR), MsgType(REPLY_TYPE), d)),
            Err(e) => {
            core::mem::forget(e); // never drop an error value in a harness: its drop glue drags in every dyn Error
            panic!("try_new")
        }
        }
    }
}

fn stub_sleep(d: Duration) {
    push(Ev::Sleep(d.as_millis() as u64));
}

/// C16 + C18: the exact event sequence of SerialSignBus::process_message for every message, every reply frame
/// (0..=4 data bytes, any type/address: known, unknown, in-progress reports) and a failure at the write or the read.
#[kani::proof]
#[kani::unwind(8)]
#[kani::stub(flipdot_core::Frame::write, stub_frame_write)]
#[kani::stub(flipdot_core::Frame::read, stub_frame_read)]
#[kani::stub(std::thread::sleep, stub_sleep)]
fn c16_c18_event_order_reply_due() {
    let (wf, rf, _d, due, n) = event_order(0b00_0010_1100); // Hello, QueryState, RequestOperation
    kani::cover!(!wf && due && !rf && n == 3, "cov_in_progress_paced");
    kani::cover!(!wf && due && !rf && n == 2, "cov_reply_unpaced");
    kani::cover!(!wf && due && rf, "cov_read_failure");
    kani::cover!(wf, "cov_write_failure");
}
#[kani::proof]
#[kani::unwind(8)]
#[kani::stub(flipdot_core::Frame::write, stub_frame_write)]
#[kani::stub(flipdot_core::Frame::read, stub_frame_read)]
#[kani::stub(std::thread::sleep, stub_sleep)]
fn c16_c18_event_order_one_way() {
    let (wf, _rf, _d, due, n) = event_order(0b01_1101_0010); // DataChunksSent, ReportState, AckOperation, PixelsComplete, Goodbye
    kani::cover!(!wf && !due && n == 1, "cov_one_way");
    kani::cover!(wf, "cov_write_failure");
}
#[kani::proof]
#[kani::unwind(8)]
#[kani::stub(flipdot_core::Frame::write, stub_frame_write)]
#[kani::stub(flipdot_core::Frame::read, stub_frame_read)]
#[kani::stub(std::thread::sleep, stub_sleep)]
fn c16_c18_event_order_data() {
    let (wf, _rf, d, _due, n) = event_order(0b00_0000_0001); // SendData, data of every length 0..=255
    kani::cover!(!wf && d && n == 2, "cov_data_paced");
    kani::cover!(wf && n == 1, "cov_write_failure_no_sleep");
}
#[kani::proof]
#[kani::unwind(8)]
#[kani::stub(flipdot_core::Frame::write, stub_frame_write)]
#[kani::stub(flipdot_core::Frame::read, stub_frame_read)]
#[kani::stub(std::thread::sleep, stub_sleep)]
fn c16_c18_event_order_unknown() {
    let (wf, _rf, _d, due, n) = event_order(0b10_0000_0000); // Unknown(frame), any type, data of every length 0..=255
    kani::cover!(!wf && !due && n == 1, "cov_unknown_forwarded_no_reply");
}

/// The union of the four harnesses above covers every message; each is complete on its part of the domain.
#[allow(unsafe_code)]
fn event_order(kinds: u16) -> (bool, bool, bool, bool, usize) {
    let arr: [u8; 255] = kani::any();
    let m = any_message_of(&arr, kinds);
    let reply_due = matches!(m, Message::Hello(_) | Message::QueryState(_) | Message::RequestOperation(_, _));
    let is_data = matches!(m, Message::SendData(_, _));
    let expect_frame = Frame::from(m.clone());
    let (e_addr, e_ty, e_ptr, e_len) = (expect_frame.address().0, expect_frame.message_type().0, expect_frame.data().as_ptr(), expect_frame.data().len());
    let e_b0 = if e_len > 0 { expect_frame.data()[0] } else { 0 };
    let forwarded = matches!(m, Message::SendData(..) | Message::Unknown(_));
    unsafe {
        WRITE_FAILS = kani::any();
        READ_FAILS = kani::any();
        REPLY_ADDR = kani::any();
        REPLY_TYPE = kani::any();
        REPLY_LEN = kani::any();
        kani::assume(REPLY_LEN <= 4);
        REPLY_DATA = kani::any();
        NEV = 0;
    }
    // built through the public constructor (not a struct literal), so that a bus with additional private fields still
    // compiles; the port set-up it performs is the subject of C20
    let mut bus = match SerialSignBus::try_new(KPort { settings: any_settings(), timeout: None, fail_read_settings: false, fail_write_settings: false, fail_set_timeout: false, err_kind: 0, calls: Cell::new([0; 6]), ncalls: Cell::new(0) }) {
        Ok(b) => b,
        Err(e) => {
            core::mem::forget(e);
            panic!("try_new on a quiet port")
        }
    };
    let r = bus.process_message(m);
    let (ev, n, wf, rf) = unsafe { (EVENTS, NEV, WRITE_FAILS, READ_FAILS) };
    // exactly one write, first, of exactly the message's frame
    assert!(n >= 1);
    match ev[0] {
        Ev::Write { addr, ty, ptr, len, b0 } => {
            assert!(addr == e_addr && ty == e_ty && len == e_len && b0 == e_b0);
            if forwarded {
                assert!(ptr == e_ptr);
            }
        }
        _ => panic!("first port operation is not the frame write"),
    }
    if wf {
        assert!(n == 1 && r.is_err()); // nothing after a failed write, and the failure is returned
    } else {
        let mut k = 1;
        if is_data {
            assert!(n > k && ev[k] == Ev::Sleep(30)); // C18: 30 ms after a data chunk, before anything else
            k += 1;
        }
        if reply_due {
            assert!(n > k && ev[k] == Ev::Read); // exactly one read
            k += 1;
            if rf {
                assert!(n == k && r.is_err()); // read failure / undecodable reply => error, nothing further
            } else {
                let (ra, rt, rl, rd) = unsafe { (REPLY_ADDR, REPLY_TYPE, REPLY_LEN, REPLY_DATA) };
                let paced = rt == 4 && rl == 1 && (rd[0] == 0x13 || rd[0] == 0x11);
                if paced {
                    assert!(n == k + 1 && ev[k] == Ev::Sleep(100)); // C18: 100 ms after an in-progress report
                } else {
                    assert!(n == k); // no other reply is delayed
                }
                match &r {
                    Ok(Some(reply)) => {
                        // the reply is the decoding of the frame that was read (Message::from itself is the subject of C04)
                        let mut v = rd.to_vec();
                        v.truncate(rl);
                        let d = match Data::try_new(v) {
                            Ok(d) => d,
                            Err(e) => {
                                core::mem::forget(e);
                                panic!("try_new")
                            }
                        };
                        let expect = Message::from(Frame::new(Address(ra), MsgType(rt), d));
                        assert!(*reply == expect);
                        let in_progress = matches!(reply, Message::ReportState(_, State::PageLoadInProgress) | Message::ReportState(_, State::PageShowInProgress));
                        assert!(paced == in_progress);
                        core::mem::forget(expect);
                    }
                    _ => panic!("a reply was read but not returned"),
                }
            }
        } else {
            assert!(n == k); // no read at all
            assert!(matches!(r, Ok(None)));
        }
    }
    core::mem::forget(r);
    (wf, rf, is_data, reply_due, n)
}

/// Vacuity canary for this package: must FAIL.
#[kani::proof]
fn canary_must_fail() {
    let x: u8 = kani::any();
    assert!(x != 7);
}
