// Overlaid as a child module of flipdot_core::page (see lib/kani.py). C06: out-of-bounds coordinates
// must panic — the complement of the precondition `x < width && y < height` under which Verus proves
// the pixel operations. "Must panic" is checked as "the call never returns": the cover point placed
// after the call must be unreachable, and the only failing checks are panics.
#![allow(dead_code, unused_imports, unused_variables, unused_results)]
use super::*;

const N: usize = 512; // page images up to 512 bytes: covers all 11 real sign sizes (largest 336)

fn any_page_dims() -> (u32, u32, usize) {
    let w: u32 = kani::any();
    let h: u32 = kani::any();
    let n = Page::total_bytes(w, h);
    kani::assume(n <= N);
    (w, h, n)
}

#[kani::proof]
#[kani::unwind(2)]
fn c06_oob_get_never_returns() {
    let (w, h, n) = any_page_dims();
    let x: u32 = kani::any();
    let y: u32 = kani::any();
    kani::assume(x >= w || y >= h);
    let buf: [u8; N] = kani::any();
    let page = Page { width: w, height: h, bytes: Cow::Borrowed(&buf[..n]) };
    let _ = page.get_pixel(x, y);
    kani::cover!(true, "oob_call_returned");
}

#[kani::proof]
#[kani::unwind(2)]
fn c06_oob_set_never_returns() {
    let (w, h, n) = any_page_dims();
    let x: u32 = kani::any();
    let y: u32 = kani::any();
    let v: bool = kani::any();
    kani::assume(x >= w || y >= h);
    let buf: [u8; N] = kani::any();
    let mut page = Page { width: w, height: h, bytes: Cow::Borrowed(&buf[..n]) };
    page.set_pixel(x, y, v);
    kani::cover!(true, "oob_call_returned");
}

/// The same statement for EVERY u32 width and height (no bound on the page size): the bounds check precedes every access
/// to the byte image, so it can be decided on a page value whose byte image is empty (such a value cannot be built through
/// the public API; the harness builds it directly to remove the size bound).
#[kani::proof]
#[kani::unwind(2)]
fn c06_oob_never_returns_any_dims() {
    let w: u32 = kani::any();
    let h: u32 = kani::any();
    let x: u32 = kani::any();
    let y: u32 = kani::any();
    kani::assume(x >= w || y >= h);
    let empty: [u8; 0] = [];
    let mut page = Page { width: w, height: h, bytes: Cow::Borrowed(&empty[..]) };
    if kani::any() {
        let _ = page.get_pixel(x, y);
    } else {
        page.set_pixel(x, y, kani::any());
    }
    kani::cover!(true, "oob_call_returned");
}

// Vacuity guard for the two harnesses above: with in-bounds coordinates the same set-up does return.
#[kani::proof]
#[kani::unwind(2)]
fn c06_inbounds_get_returns() {
    let (w, h, n) = any_page_dims();
    let x: u32 = kani::any();
    let y: u32 = kani::any();
    kani::assume(x < w && y < h);
    let buf: [u8; N] = kani::any();
    let page = Page { width: w, height: h, bytes: Cow::Borrowed(&buf[..n]) };
    let r = page.get_pixel(x, y);
    kani::cover!(r, "cov_returned_true");
    kani::cover!(!r && y % 8 == 7 && x > 0, "cov_returned_false");
}

/// Vacuity canary for this package: must FAIL, otherwise the run proves nothing.
#[kani::proof]
fn canary_must_fail() {
    let x: u8 = kani::any();
    assert!(x != 7);
}
