// Overlaid as a child module of flipdot_testing::odk (isolated overlay, see lib/kani.py ISOLATED_OVERLAYS).
//
// C17, the composition: ONE EXCHANGE through the real SerialSignBus::process_message, a pipe, and the real
// Odk::process_message in front of a bus B  ==  the same exchange on B directly.
//
// Frame::write / Frame::read are replaced by their contracts (proved for the extracted functions by the Verus unit of
// C15: write delivers exactly the frame's encoding + CRLF, read consumes exactly one line and returns its decoding; the
// codec round trip is C01): a written frame arrives as an equal frame at the other end of the pipe, in order.  The two
// directions of the wire are two one-place queues.  The bridge is a separate process in reality; here it gets to run at
// the moment the controller side starts waiting for a line (or, when the controller side does not wait, right after).
//
// Induction over a conversation: both queues are empty before the exchange (assumed) and after it (asserted), so the
// statement applies to every exchange of every conversation.
//
// Precondition on B, which is what makes the path transparent and which the virtual bus satisfies (C13: a virtual sign
// answers only Hello / QueryState / RequestOperation; C12: it returns Ok for every message): B returns Ok, and replies
// only to a message for which the serial bus expects a reply.  Both halves are covered by cover points.
#![allow(unsafe_code, dead_code, unused_imports, static_mut_refs, unused_results)]
use super::*;
use flipdot_core::{Address, ChunkCount, Data, FrameError, MsgType, Offset, Operation, State};
use flipdot_serial::SerialSignBus;
use serial_core::{PortSettings, SerialDevice};
use std::error::Error;
use std::io::{self, Read, Write};

struct PPort {
    settings: PortSettings,
    timeout: Duration,
}
impl PPort {
    fn new() -> Self {
        PPort {
            settings: PortSettings { baud_rate: serial_core::Baud9600, char_size: serial_core::Bits7, parity: serial_core::ParityOdd, stop_bits: serial_core::Stop2, flow_control: serial_core::FlowHardware },
            timeout: Duration::from_millis(0),
        }
    }
}
impl Read for PPort {
    fn read(&mut self, _buf: &mut [u8]) -> io::Result<usize> {
        Ok(0)
    }
}
impl Write for PPort {
    fn write(&mut self, buf: &[u8]) -> io::Result<usize> {
        Ok(buf.len())
    }
    fn flush(&mut self) -> io::Result<()> {
        Ok(())
    }
}
impl SerialDevice for PPort {
    type Settings = PortSettings;
    fn read_settings(&self) -> serial_core::Result<PortSettings> {
        Ok(self.settings)
    }
    fn write_settings(&mut self, s: &PortSettings) -> serial_core::Result<()> {
        self.settings = *s;
        Ok(())
    }
    fn timeout(&self) -> Duration {
        self.timeout
    }
    fn set_timeout(&mut self, t: Duration) -> serial_core::Result<()> {
        self.timeout = t;
        Ok(())
    }
    fn set_rts(&mut self, _: bool) -> serial_core::Result<()> {
        Ok(())
    }
    fn set_dtr(&mut self, _: bool) -> serial_core::Result<()> {
        Ok(())
    }
    fn read_cts(&mut self) -> serial_core::Result<bool> {
        Ok(false)
    }
    fn read_dsr(&mut self) -> serial_core::Result<bool> {
        Ok(false)
    }
    fn read_ri(&mut self) -> serial_core::Result<bool> {
        Ok(false)
    }
    fn read_cd(&mut self) -> serial_core::Result<bool> {
        Ok(false)
    }
}

/// A frame in flight / as seen by the bus: address, type, and the data by identity (pointer + length) so that data of
/// every length 0..=255 is covered without copying.
#[derive(Copy, Clone, PartialEq, Eq)]
struct QF {
    addr: u16,
    ty: u8,
    ptr: *const u8,
    len: usize,
    b0: u8,
}
impl QF {
    fn of(f: &Frame<'_>) -> QF {
        let d = f.data();
        QF { addr: f.address().0, ty: f.message_type().0, ptr: d.as_ptr(), len: d.len(), b0: if d.len() > 0 { d[0] } else { 0 } }
    }
    /// same frame: data by identity for forwarded data (any length), by value for the specific messages (at most one byte)
    fn same(&self, o: &QF, by_identity: bool) -> bool {
        self.addr == o.addr && self.ty == o.ty && self.len == o.len && self.b0 == o.b0 && (!by_identity || self.ptr == o.ptr) && (by_identity || self.len <= 1)
    }
    fn frame<'a>(&self) -> Frame<'a> {
        let s: &'a [u8] = unsafe { core::slice::from_raw_parts(self.ptr, self.len) };
        match Data::try_new(s) {
            Ok(d) => Frame::new(Address(self.addr), MsgType(self.ty), d),
            Err(e) => {
                core::mem::forget(e); // never drop an error value in a harness
                panic!("try_new")
            }
        }
    }
}
const NOQ: QF = QF { addr: 0, ty: 0, ptr: core::ptr::null(), len: 0, b0: 0 };

static mut TO_BRIDGE: (bool, QF) = (false, NOQ); // controller -> bridge
static mut TO_CTRL: (bool, QF) = (false, NOQ); // bridge -> controller
static mut OVERFLOW: bool = false;
static mut SIDE: u8 = 0; // who is executing: 0 = controller side, 1 = bridge
static mut BRIDGE_RUNS: u8 = 0;
static mut BRIDGE_OK: bool = false;
static mut BUS_CALLS: u8 = 0;
static mut BUS_SAW: QF = NOQ;
static mut ODK: *mut Odk<PPort, ScriptBus> = core::ptr::null_mut();

fn run_bridge() {
    unsafe {
        SIDE = 1;
        BRIDGE_RUNS += 1;
        let r = (*ODK).process_message();
        BRIDGE_OK = r.is_ok();
        core::mem::forget(r);
        SIDE = 0;
    }
}

fn stub_frame_write<'a, W: Write>(f: &Frame<'a>, _writer: &mut W) -> Result<(), FrameError>
where
    'a: 'a,
{
    let q = QF::of(f);
    unsafe {
        let slot = if SIDE == 0 { &mut TO_BRIDGE } else { &mut TO_CTRL };
        if slot.0 {
            OVERFLOW = true;
        }
        *slot = (true, q);
    }
    Ok(())
}

fn stub_frame_read<'a, R: Read>(_reader: &mut R) -> Result<Frame<'a>, FrameError>
where
    'a: 'a,
{
    unsafe {
        if SIDE == 0 {
            // the controller side waits for a line: whatever it wrote has reached the bridge, which handles it now
            if TO_BRIDGE.0 {
                run_bridge();
            }
            if TO_CTRL.0 {
                TO_CTRL.0 = false;
                Ok(TO_CTRL.1.frame())
            } else {
                // nothing arrives: the port's read times out (any failing read takes the same `?` path)
                Err(FrameError::InvalidFrame { data: Vec::new() })
            }
        } else if TO_BRIDGE.0 {
            TO_BRIDGE.0 = false;
            Ok(TO_BRIDGE.1.frame())
        } else {
            Err(FrameError::InvalidFrame { data: Vec::new() })
        }
    }
}

fn stub_sleep(_d: Duration) {}

const STATES: [State; 13] = [
    State::Unconfigured,
    State::ConfigInProgress,
    State::ConfigReceived,
    State::ConfigFailed,
    State::PixelsInProgress,
    State::PixelsReceived,
    State::PixelsFailed,
    State::PageLoaded,
    State::PageLoadInProgress,
    State::PageShown,
    State::PageShowInProgress,
    State::ShowingPages,
    State::ReadyToReset,
];
const OPS: [Operation; 6] = [
    Operation::ReceiveConfig,
    Operation::ReceivePixels,
    Operation::ShowLoadedPage,
    Operation::LoadNextPage,
    Operation::StartReset,
    Operation::FinishReset,
];

/// kinds: 0 SendData, 1 DataChunksSent, 2 Hello, 3 QueryState, 4 ReportState, 5 RequestOperation, 6 AckOperation,
/// 7 PixelsComplete, 8 Goodbye, 9 Unknown
fn message_of<'a>(kind: u8, a: u16, si: usize, oi: usize, ty: u8, data: &'a [u8]) -> Message<'a> {
    match kind {
        0 | 9 => match Data::try_new(data) {
            Ok(d) => {
                if kind == 0 {
                    Message::SendData(Offset(a), d)
                } else {
                    Message::Unknown(Frame::new(Address(a), MsgType(ty), d))
                }
            }
            Err(e) => {
                core::mem::forget(e);
                panic!("try_new")
            }
        },
        1 => Message::DataChunksSent(ChunkCount(a)),
        2 => Message::Hello(Address(a)),
        3 => Message::QueryState(Address(a)),
        4 => Message::ReportState(Address(a), STATES[si]),
        5 => Message::RequestOperation(Address(a), OPS[oi]),
        6 => Message::AckOperation(Address(a), OPS[oi]),
        7 => Message::PixelsComplete(Address(a)),
        _ => Message::Goodbye(Address(a)),
    }
}

/// The bus behind the bridge: records the frame of the message it is given; answers None or Some(reply).
struct ScriptBus {
    replies: bool,
    kind: u8,
    a: u16,
    si: usize,
    oi: usize,
}
impl SignBus for ScriptBus {
    fn process_message<'a>(&mut self, m: Message<'_>) -> Result<Option<Message<'a>>, Box<dyn Error + Send + Sync>> {
        let f = Frame::from(m);
        unsafe {
            BUS_CALLS += 1;
            BUS_SAW = QF::of(&f);
        }
        core::mem::forget(f);
        if self.replies {
            Ok(Some(message_of(self.kind, self.a, self.si, self.oi, 0, &[])))
        } else {
            Ok(None)
        }
    }
}

/// kinds: bit k set = message kind k allowed for the message sent by the controller side
fn exchange(kinds: u16) -> (bool, bool) {
    let arr: [u8; 255] = kani::any();
    let kind: u8 = kani::any();
    kani::assume(kind <= 9 && (kinds >> kind) & 1 == 1);
    let (a, si, oi, ty, n): (u16, usize, usize, u8, usize) = (kani::any(), kani::any(), kani::any(), kani::any(), kani::any());
    kani::assume(si < 13 && oi < 6 && n <= 255);
    let m = message_of(kind, a, si, oi, ty, &arr[..n]);
    if kind == 9 {
        // Message::Unknown is what decoding yields for frames that are NOT one of the specific messages; a hand-made
        // Unknown wrapping, say, a Hello frame is not a message the decoder (or the controller) ever produces
        let canonical = Message::from(Frame::from(m.clone()));
        kani::assume(matches!(canonical, Message::Unknown(_)));
        core::mem::forget(canonical);
    }
    let reply_due = matches!(m, Message::Hello(_) | Message::QueryState(_) | Message::RequestOperation(_, _));
    let want = QF::of(&Frame::from(m.clone()));

    // the bus: replies with any data-free message, or not at all; replies only when a reply is due (see header)
    let bus = ScriptBus { replies: kani::any(), kind: kani::any(), a: kani::any(), si: kani::any(), oi: kani::any() };
    kani::assume(bus.kind >= 1 && bus.kind <= 8 && bus.si < 13 && bus.oi < 6);
    kani::assume(!bus.replies || reply_due);
    let (replies, rk, ra, rsi, roi) = (bus.replies, bus.kind, bus.a, bus.si, bus.oi);

    let mut odk = match Odk::try_new(PPort::new(), bus) {
        Ok(o) => o,
        Err(e) => {
            core::mem::forget(e);
            panic!("Odk::try_new on a quiet port")
        }
    };
    let mut serial = match SerialSignBus::try_new(PPort::new()) {
        Ok(s) => s,
        Err(e) => {
            core::mem::forget(e);
            panic!("SerialSignBus::try_new on a quiet port")
        }
    };
    unsafe {
        ODK = &mut odk;
        TO_BRIDGE = (false, NOQ);
        TO_CTRL = (false, NOQ);
        OVERFLOW = false;
        SIDE = 0;
        BRIDGE_RUNS = 0;
        BUS_CALLS = 0;
    }

    let r = serial.process_message(m);

    // a message the serial bus does not wait on is handled by the bridge afterwards
    unsafe {
        if TO_BRIDGE.0 {
            assert!(!reply_due);
            run_bridge();
        }
    }
    let (runs, bridge_ok, calls, saw, overflow) = unsafe { (BRIDGE_RUNS, BRIDGE_OK, BUS_CALLS, BUS_SAW, OVERFLOW) };
    // the bridge handled exactly one line, successfully, and the bus behind it received exactly the message sent:
    // same address field, same type, the same data bytes (by identity), once
    assert!(runs == 1 && bridge_ok);
    assert!(calls == 1);
    assert!(saw.same(&want, kind == 0 || kind == 9));
    // the controller side gets what the bus answered ...
    match &r {
        Ok(Some(reply)) => {
            assert!(replies);
            let expect = message_of(rk, ra, rsi, roi, 0, &[]);
            assert!(*reply == expect);
            core::mem::forget(expect);
        }
        Ok(None) => assert!(!replies && !reply_due),
        // ... and where the direct bus would have answered nothing to a message that requires an answer, the serial
        // path reports an error (the controller treats both as a failed exchange: C10)
        Err(_) => assert!(!replies && reply_due),
    }
    // nothing is left on the wire in either direction: the next exchange starts from the same situation
    unsafe {
        assert!(!TO_BRIDGE.0 && !TO_CTRL.0);
    }
    assert!(!overflow);
    core::mem::forget(r);
    (reply_due, replies)
}

#[kani::proof]
#[kani::unwind(8)]
#[kani::stub(flipdot_core::Frame::write, stub_frame_write)]
#[kani::stub(flipdot_core::Frame::read, stub_frame_read)]
#[kani::stub(std::thread::sleep, stub_sleep)]
fn c17_exchange_is_transparent_reply_due() {
    let (due, replies) = exchange(0b00_0010_1100); // Hello, QueryState, RequestOperation
    kani::cover!(due && replies, "cov_reply_transported");
    kani::cover!(due && !replies, "cov_silence_is_an_error");
}
#[kani::proof]
#[kani::unwind(8)]
#[kani::stub(flipdot_core::Frame::write, stub_frame_write)]
#[kani::stub(flipdot_core::Frame::read, stub_frame_read)]
#[kani::stub(std::thread::sleep, stub_sleep)]
fn c17_exchange_is_transparent_one_way() {
    let (due, replies) = exchange(0b11_1101_0011); // every other kind, incl. data chunks and unknown frames of any length
    kani::cover!(!due && !replies, "cov_one_way_forwarded");
}
