// Overlaid as a child module of flipdot::sign. C09 / C10 / C11: every controller operation against a bus whose every
// reply is nondeterministic (None, any state report from any address, any acknowledgement from any address, an
// unrelated message, an unknown frame, or a bus error), i.e. all reply scripts at once.
//
//  * C10: a MONITOR (the documented protocol, written as a phase machine independent of sign.rs) checks every
//    outgoing message against what the protocol prescribes for the replies seen so far, and the final outcome.
//  * C09: the monitor's data-phase expectations: ack before data, per item offsets 0,16,32.., chunk i is
//    bytes[16i .. min(16i+16, len)] of the item (pointer identity => concatenation equals the item), chunk count ==
//    chunks since the request, in every retry attempt; configuration item == sign_type.to_bytes().
//  * C11: log invariants that do not use the monitor: own address on everything, nothing after a bus error or a
//    disallowed reply (fail-stop), <= 3 receive requests and retries only after a 'failed' report from the own
//    address, success only after a 'received' report from the own address answering the last state query.
#![allow(dead_code, unused_imports, unused_variables, unused_results, unsafe_code, static_mut_refs)]
use super::*;
use std::error::Error;

const STATES: [State; 13] = [
    State::Unconfigured,
    State::ConfigInProgress,
    State::ConfigReceived,
    State::ConfigFailed,
    State::PixelsInProgress,
    State::PixelsReceived,
    State::PixelsFailed,
    State::PageLoaded,
    State::PageLoadInProgress,
    State::PageShown,
    State::PageShowInProgress,
    State::ShowingPages,
    State::ReadyToReset,
];
const S_UNCONF: usize = 0;
const S_CFG_RECV: usize = 2;
const S_CFG_FAIL: usize = 3;
const S_PIX_RECV: usize = 5;
const S_PIX_FAIL: usize = 6;
const S_LOADED: usize = 7;
const S_LOAD_PROG: usize = 8;
const S_SHOWN: usize = 9;
const S_SHOW_PROG: usize = 10;
const S_SHOWING: usize = 11;
const S_READY_RESET: usize = 12;
const OPS: [Operation; 6] = [
    Operation::ReceiveConfig,
    Operation::ReceivePixels,
    Operation::ShowLoadedPage,
    Operation::LoadNextPage,
    Operation::StartReset,
    Operation::FinishReset,
];
const O_RECV_CFG: usize = 0;
const O_RECV_PIX: usize = 1;
const O_SHOW: usize = 2;
const O_LOAD_NEXT: usize = 3;
const O_START_RESET: usize = 4;
const O_FINISH_RESET: usize = 5;
const TYPES: [SignType; 11] = [
    SignType::Max3000Front112x16,
    SignType::Max3000Front98x16,
    SignType::Max3000Side90x7,
    SignType::Max3000Rear30x10,
    SignType::Max3000Rear23x10,
    SignType::Max3000Dash30x7,
    SignType::HorizonFront160x16,
    SignType::HorizonFront140x16,
    SignType::HorizonSide96x8,
    SignType::HorizonRear48x16,
    SignType::HorizonDash40x12,
];

fn state_idx(s: State) -> usize {
    match s {
        State::Unconfigured => 0,
        State::ConfigInProgress => 1,
        State::ConfigReceived => 2,
        State::ConfigFailed => 3,
        State::PixelsInProgress => 4,
        State::PixelsReceived => 5,
        State::PixelsFailed => 6,
        State::PageLoaded => 7,
        State::PageLoadInProgress => 8,
        State::PageShown => 9,
        State::PageShowInProgress => 10,
        State::ShowingPages => 11,
        State::ReadyToReset => 12,
        #[allow(unreachable_patterns)]
        _ => 13,
    }
}
fn op_idx(o: Operation) -> usize {
    match o {
        Operation::ReceiveConfig => 0,
        Operation::ReceivePixels => 1,
        Operation::ShowLoadedPage => 2,
        Operation::LoadNextPage => 3,
        Operation::StartReset => 4,
        Operation::FinishReset => 5,
        #[allow(unreachable_patterns)]
        _ => 6,
    }
}

// ---- abstract outgoing message
#[derive(Copy, Clone, PartialEq, Eq)]
enum Out {
    Hello(u16),
    Query(u16),
    Req(u16, usize),
    Data(u16, *const u8, usize),
    Count(u16),
    PixelsComplete(u16),
    Goodbye(u16),
    Other,
}
fn out_of(m: &Message<'_>) -> Out {
    match m {
        Message::Hello(a) => Out::Hello(a.0),
        Message::QueryState(a) => Out::Query(a.0),
        Message::RequestOperation(a, o) => Out::Req(a.0, op_idx(*o)),
        Message::SendData(off, d) => Out::Data(off.0, d.get().as_ptr(), d.get().len()),
        Message::DataChunksSent(c) => Out::Count(c.0),
        Message::PixelsComplete(a) => Out::PixelsComplete(a.0),
        Message::Goodbye(a) => Out::Goodbye(a.0),
        _ => Out::Other,
    }
}

// ---- nondeterministic reply
#[derive(Copy, Clone, PartialEq, Eq)]
enum Rep {
    None,
    Report(u16, usize),
    Ack(u16, usize),
    OtherMsg(u16), // an unrelated message (a Goodbye from some address)
    UnknownFrame(u16, u8),
    Err,
}
static mut EXP_MODE: u8 = 0; // cost experiments only
fn any_reply() -> Rep {
    let k: u8 = kani::any();
    unsafe {
        if EXP_MODE == 1 { kani::assume(k != 3 && k != 4); }
        if EXP_MODE == 3 { kani::assume(k <= 4); }
    }
    let a: u16 = kani::any();
    let si: usize = kani::any();
    let oi: usize = kani::any();
    kani::assume(si < 13 && oi < 6);
    match k {
        0 => Rep::None,
        1 => Rep::Report(a, si),
        2 => Rep::Ack(a, oi),
        3 => Rep::OtherMsg(a),
        4 => Rep::UnknownFrame(a, kani::any()),
        _ => Rep::Err,
    }
}
fn reply_value<'a>(r: Rep) -> Result<Option<Message<'a>>, Box<dyn Error + Send + Sync>> {
    match r {
        Rep::None => Ok(None),
        Rep::Report(a, si) => Ok(Some(Message::ReportState(Address(a), STATES[si]))),
        Rep::Ack(a, oi) => Ok(Some(Message::AckOperation(Address(a), OPS[oi]))),
        Rep::OtherMsg(a) => Ok(Some(Message::Goodbye(Address(a)))),
        Rep::UnknownFrame(a, t) => Ok(Some(Message::Unknown(crate::core::Frame::new(Address(a), crate::core::MsgType(t), Data::from(&[]))))),
        Rep::Err => Err("bus failure".into()),
    }
}

// ---- the documented protocol as a phase machine (monitor)
#[derive(Copy, Clone, PartialEq, Eq)]
enum Phase {
    IfNeededHello,
    Hello0,
    StartReset,
    HelloReadyReset,
    FinishReset,
    HelloUnconf,
    ReqRecv,
    Data,
    Count,
    QueryResult,
    PixelsComplete,
    QueryStyle,
    Goodbye,
    SwitchQuery,
    SwitchReq,
    Done,
}
#[derive(Copy, Clone, PartialEq, Eq)]
enum Outcome {
    Pending,
    Ok,
    OkAutomatic,
    Unexpected,
    BusError,
}
#[derive(Copy, Clone, PartialEq, Eq)]
enum Kind {
    Configure,
    SendPages,
    ShutDown,
    Switch,
}

const MAX_ITEMS: usize = 3;
const LOG: usize = 40;

struct Bus {
    own: u16,
    kind: Kind,
    // transfer description
    recv_op: usize,
    success: usize,
    failure: usize,
    n_items: usize,
    items: [(*const u8, usize); MAX_ITEMS],
    config: [u8; 16],
    // switch_page description
    sw_target: usize,
    sw_trigger: usize,
    sw_op: usize,
    max_polls: usize,
    polls: usize,
    // monitor state
    phase: Phase,
    attempt: u32,
    item: usize,
    chunk: usize,
    chunks_sent: u16,
    outcome: Outcome,
    // C11 log invariants (independent of the monitor)
    dead: bool,
    sent_after_dead: bool,
    foreign_address_sent: bool,
    recv_requests: u32,
    last_exchange_was_own_failed_report: bool,
    retry_without_failed_report: bool,
    last_query_reply_own_success: bool,
    n_msgs: usize,
}

impl Bus {
    fn new(own: u16, kind: Kind, phase: Phase) -> Self {
        Bus {
            own,
            kind,
            recv_op: O_RECV_CFG,
            success: S_CFG_RECV,
            failure: S_CFG_FAIL,
            n_items: 0,
            items: [(core::ptr::null(), 0); MAX_ITEMS],
            config: [0; 16],
            sw_target: 0,
            sw_trigger: 0,
            sw_op: 0,
            max_polls: 0,
            polls: 0,
            phase,
            attempt: 1,
            item: 0,
            chunk: 0,
            chunks_sent: 0,
            outcome: Outcome::Pending,
            dead: false,
            sent_after_dead: false,
            foreign_address_sent: false,
            recv_requests: 0,
            last_exchange_was_own_failed_report: false,
            retry_without_failed_report: false,
            last_query_reply_own_success: false,
            n_msgs: 0,
        }
    }

    fn finish(&mut self, o: Outcome) {
        self.outcome = o;
        self.phase = Phase::Done;
    }

    /// first data phase of an attempt, or straight to the count when there is nothing to send
    fn start_data(&mut self) {
        self.item = 0;
        self.chunk = 0;
        self.chunks_sent = 0;
        self.skip_empty_items();
    }
    fn skip_empty_items(&mut self) {
        while self.item < self.n_items && self.chunk * 16 >= self.items[self.item].1 {
            self.item += 1;
            self.chunk = 0;
        }
        self.phase = if self.item < self.n_items { Phase::Data } else { Phase::Count };
    }

    /// C10/C09: the message the protocol prescribes in the current phase
    fn check_message(&self, m: &Message<'_>) {
        let got = out_of(m);
        let own = self.own;
        match self.phase {
            Phase::IfNeededHello | Phase::Hello0 | Phase::HelloReadyReset | Phase::HelloUnconf => assert!(got == Out::Hello(own)),
            Phase::StartReset => assert!(got == Out::Req(own, O_START_RESET)),
            Phase::FinishReset => assert!(got == Out::Req(own, O_FINISH_RESET)),
            Phase::ReqRecv => assert!(got == Out::Req(own, self.recv_op)),
            Phase::Data => {
                let (base, len) = self.items[self.item];
                let off = self.chunk * 16;
                let n = if len - off < 16 { len - off } else { 16 };
                match got {
                    Out::Data(o, p, l) => {
                        assert!(o as usize == off); // offsets 0, 16, 32, ... within the item
                        assert!(l == n); // at most 16 bytes, all of the rest of the item
                        if self.kind == Kind::Configure {
                            // the configuration sent is exactly the 16-byte block of the sign type
                            if let Message::SendData(_, d) = m {
                                let sent: [u8; 16] = match <[u8; 16]>::try_from(&d.get()[..]) {
                                    Ok(a) => a,
                                    Err(_) => panic!("configuration chunk is not 16 bytes"),
                                };
                                assert!(u128::from_le_bytes(sent) == u128::from_le_bytes(self.config));
                            }
                        } else {
                            assert!(p == base.wrapping_add(off)); // the very bytes of the page, in order
                        }
                    }
                    _ => panic!("protocol: a data chunk is due"),
                }
            }
            Phase::Count => assert!(got == Out::Count(self.chunks_sent)),
            Phase::QueryResult | Phase::QueryStyle | Phase::SwitchQuery => assert!(got == Out::Query(own)),
            Phase::PixelsComplete => assert!(got == Out::PixelsComplete(own)),
            Phase::Goodbye => assert!(got == Out::Goodbye(own)),
            Phase::SwitchReq => assert!(got == Out::Req(own, self.sw_op)),
            Phase::Done => panic!("protocol: nothing further may be sent"),
        }
    }

    /// C10: next phase / outcome for the reply just produced
    fn advance(&mut self, r: Rep) {
        if r == Rep::Err {
            self.finish(Outcome::BusError);
            return;
        }
        let own = self.own;
        match self.phase {
            Phase::IfNeededHello => {
                let ready = match r {
                    Rep::Report(a, s) if a == own => s == S_CFG_RECV || s == S_SHOWING || s == S_LOADED || s == S_SHOW_PROG || s == S_SHOWN || s == S_LOAD_PROG,
                    _ => false,
                };
                if ready {
                    self.finish(Outcome::Ok);
                } else {
                    self.phase = Phase::Hello0;
                }
            }
            Phase::Hello0 => {
                self.phase = match r {
                    Rep::Report(a, s) if a == own && s == S_UNCONF => Phase::ReqRecv,
                    Rep::Report(a, s) if a == own && s == S_READY_RESET => Phase::FinishReset,
                    _ => Phase::StartReset,
                }
            }
            Phase::StartReset => {
                if r == Rep::Ack(own, O_START_RESET) {
                    self.phase = Phase::HelloReadyReset
                } else {
                    self.finish(Outcome::Unexpected)
                }
            }
            Phase::HelloReadyReset => {
                if r == Rep::Report(own, S_READY_RESET) {
                    self.phase = Phase::FinishReset
                } else {
                    self.finish(Outcome::Unexpected)
                }
            }
            Phase::FinishReset => {
                if r == Rep::Ack(own, O_FINISH_RESET) {
                    self.phase = Phase::HelloUnconf
                } else {
                    self.finish(Outcome::Unexpected)
                }
            }
            Phase::HelloUnconf => {
                if r == Rep::Report(own, S_UNCONF) {
                    self.phase = Phase::ReqRecv
                } else {
                    self.finish(Outcome::Unexpected)
                }
            }
            Phase::ReqRecv => {
                if r == Rep::Ack(own, self.recv_op) {
                    self.start_data()
                } else {
                    self.finish(Outcome::Unexpected)
                }
            }
            Phase::Data => {
                if r == Rep::None {
                    self.chunks_sent += 1;
                    self.chunk += 1;
                    self.skip_empty_items();
                } else {
                    self.finish(Outcome::Unexpected)
                }
            }
            Phase::Count => {
                if r == Rep::None {
                    self.phase = Phase::QueryResult
                } else {
                    self.finish(Outcome::Unexpected)
                }
            }
            Phase::QueryResult => {
                if r == Rep::Report(own, self.failure) && self.attempt < 3 {
                    self.attempt += 1;
                    self.phase = Phase::ReqRecv;
                } else if r == Rep::Report(own, self.success) {
                    if self.kind == Kind::SendPages {
                        self.phase = Phase::PixelsComplete
                    } else {
                        self.finish(Outcome::Ok)
                    }
                } else {
                    self.finish(Outcome::Unexpected)
                }
            }
            Phase::PixelsComplete => {
                if r == Rep::None {
                    self.phase = Phase::QueryStyle
                } else {
                    self.finish(Outcome::Unexpected)
                }
            }
            Phase::QueryStyle => {
                if r == Rep::Report(own, S_SHOWING) {
                    self.finish(Outcome::OkAutomatic)
                } else {
                    self.finish(Outcome::Ok)
                }
            }
            Phase::Goodbye => {
                if r == Rep::None {
                    self.finish(Outcome::Ok)
                } else {
                    self.finish(Outcome::Unexpected)
                }
            }
            Phase::SwitchQuery => match r {
                Rep::Report(a, s) if a == own && (s == S_SHOWING || s == self.sw_target) => self.finish(Outcome::Ok),
                Rep::Report(a, s) if a == own && s == self.sw_trigger => self.phase = Phase::SwitchReq,
                Rep::Report(a, s) if a == own && (s == S_LOAD_PROG || s == S_SHOW_PROG) => self.polls += 1,
                _ => self.finish(Outcome::Unexpected),
            },
            Phase::SwitchReq => {
                if r == Rep::Ack(own, self.sw_op) {
                    self.phase = Phase::SwitchQuery
                } else {
                    self.finish(Outcome::Unexpected)
                }
            }
            Phase::Done => {}
        }
    }

    /// C11: log invariants, written without reference to the monitor's phase
    fn log_invariants(&mut self, m: &Message<'_>, r: Rep) {
        let own = self.own;
        if self.dead {
            self.sent_after_dead = true;
        }
        let got = out_of(m);
        match got {
            Out::Hello(a) | Out::Query(a) | Out::Req(a, _) | Out::PixelsComplete(a) | Out::Goodbye(a) => {
                if a != own {
                    self.foreign_address_sent = true;
                }
            }
            _ => {}
        }
        if let Out::Req(_, o) = got {
            if o == O_RECV_CFG || o == O_RECV_PIX {
                self.recv_requests += 1;
                if self.recv_requests > 1 && !self.last_exchange_was_own_failed_report {
                    self.retry_without_failed_report = true;
                }
            }
        }
        // replies the protocol never allows, whatever the context
        let disallowed = match got {
            Out::Data(..) | Out::Count(_) | Out::PixelsComplete(_) | Out::Goodbye(_) => r != Rep::None,
            Out::Req(_, o) => r != Rep::Ack(own, o),
            _ => false,
        };
        if r == Rep::Err || disallowed {
            self.dead = true;
        }
        self.last_exchange_was_own_failed_report = matches!(got, Out::Query(_)) && (r == Rep::Report(own, S_CFG_FAIL) || r == Rep::Report(own, S_PIX_FAIL));
        if let Out::Query(_) = got {
            self.last_query_reply_own_success = r == Rep::Report(own, self.success);
        }
    }
}

impl SignBus for Bus {
    fn process_message<'a>(&mut self, message: Message<'_>) -> Result<Option<Message<'a>>, Box<dyn Error + Send + Sync>> {
        self.n_msgs += 1;
        assert!(self.n_msgs <= LOG); // conversations are bounded by the protocol itself
        self.check_message(&message);
        let mut r = any_reply();
        if self.kind == Kind::Switch && self.n_msgs >= self.max_polls {
            // bounded stand-in for the unbounded loop of switch_page (it polls while the sign reports an in-progress
            // state and re-requests while it reports the trigger state): after max_polls exchanges the sign must
            // answer with something that ends the operation
            kani::assume(!matches!(r, Rep::Report(a, s) if a == self.own && (s == S_LOAD_PROG || s == S_SHOW_PROG || s == self.sw_trigger)));
            if self.phase == Phase::SwitchReq {
                kani::assume(r != Rep::Ack(self.own, self.sw_op));
            }
        }
        if unsafe { EXP_MODE } != 2 {
            self.log_invariants(&message, r);
        }
        self.advance(r);
        core::mem::forget(message);
        reply_value(r)
    }
}

fn stub_format(_args: core::fmt::Arguments<'_>) -> String {
    String::new()
}

fn outcome_of<T>(r: &Result<T, SignError>) -> Outcome {
    match r {
        Ok(_) => Outcome::Ok,
        Err(SignError::UnexpectedResponse { .. }) => Outcome::Unexpected,
        Err(SignError::Bus { .. }) => Outcome::BusError,
    }
}

fn c11_common(b: &Bus) {
    assert!(!b.sent_after_dead); // fail-stop: nothing after a bus error or a reply the protocol never allows
    assert!(!b.foreign_address_sent); // every addressed message carries the own address
    assert!(b.recv_requests <= 3); // at most three transfer attempts
    assert!(!b.retry_without_failed_report); // a retry only directly after the own sign reported 'failed'
}

fn any_type() -> SignType {
    let ti: usize = kani::any();
    kani::assume(ti < 11);
    TYPES[ti]
}

fn config_of(t: SignType) -> [u8; 16] {
    let b = t.to_bytes();
    assert!(b.len() == 16);
    [b[0], b[1], b[2], b[3], b[4], b[5], b[6], b[7], b[8], b[9], b[10], b[11], b[12], b[13], b[14], b[15]]
}

// ------------------------------------------------------------------------------------------ configure

fn run_configure(if_needed: bool) {
    let own: u16 = kani::any();
    let t = any_type();
    let mut bus = Bus::new(own, Kind::Configure, if if_needed { Phase::IfNeededHello } else { Phase::Hello0 });
    bus.n_items = 1;
    bus.items[0] = (core::ptr::null(), 16);
    bus.config = config_of(t);
    let rc = Rc::new(RefCell::new(bus));
    let dynbus: Rc<RefCell<dyn SignBus>> = rc.clone();
    let sign = Sign::new(dynbus, Address(own), t);
    let r = if if_needed { sign.configure_if_needed() } else { sign.configure() };
    let b = rc.borrow();
    // C10: the conversation ran to the prescribed end, with the prescribed outcome
    assert!(b.phase == Phase::Done);
    assert!(outcome_of(&r) == b.outcome);
    // C11
    c11_common(&b);
    if r.is_ok() && b.recv_requests > 0 {
        assert!(b.last_query_reply_own_success); // success only if the concluding report was 'received' from the own address
    }
    kani::cover!(r.is_ok() && b.attempt == 3, "cov_ok_on_third_attempt");
    kani::cover!(r.is_ok() && b.recv_requests == 0, "cov_ok_without_transfer");
    kani::cover!(b.outcome == Outcome::Unexpected && b.attempt == 3, "cov_gives_up");
    kani::cover!(b.outcome == Outcome::BusError && b.n_msgs > 8, "cov_late_bus_error");
    kani::cover!(r.is_ok() && b.n_msgs >= 19, "cov_longest_conversation");
    core::mem::forget(r);
}

#[kani::proof]
#[kani::unwind(4)]
#[kani::stub(alloc::fmt::format, stub_format)]
fn c10_configure_all_reply_scripts() {
    run_configure(false);
}

#[kani::proof]
#[kani::unwind(4)]
#[kani::stub(alloc::fmt::format, stub_format)]
fn c10_configure_if_needed_all_reply_scripts() {
    run_configure(true);
}

// ------------------------------------------------------------------------------------------ shut_down

#[kani::proof]
#[kani::unwind(4)]
#[kani::stub(alloc::fmt::format, stub_format)]
fn c10_shut_down_all_reply_scripts() {
    let own: u16 = kani::any();
    let bus = Bus::new(own, Kind::ShutDown, Phase::Goodbye);
    let rc = Rc::new(RefCell::new(bus));
    let dynbus: Rc<RefCell<dyn SignBus>> = rc.clone();
    let sign = Sign::new(dynbus, Address(own), any_type());
    let r = sign.shut_down();
    let b = rc.borrow();
    assert!(b.phase == Phase::Done && b.n_msgs == 1);
    assert!(outcome_of(&r) == b.outcome);
    c11_common(&b);
    kani::cover!(r.is_ok(), "cov_ok");
    kani::cover!(b.outcome == Outcome::Unexpected, "cov_unexpected");
    kani::cover!(b.outcome == Outcome::BusError, "cov_bus_error");
    core::mem::forget(r);
}

// ------------------------------------------------------------------------------------------ show / load-next

fn run_switch(show: bool, max_polls: usize) {
    let own: u16 = kani::any();
    let mut bus = Bus::new(own, Kind::Switch, Phase::SwitchQuery);
    if show {
        bus.sw_target = S_SHOWN;
        bus.sw_trigger = S_LOADED;
        bus.sw_op = O_SHOW;
    } else {
        bus.sw_target = S_LOADED;
        bus.sw_trigger = S_SHOWN;
        bus.sw_op = O_LOAD_NEXT;
    }
    bus.max_polls = max_polls;
    let rc = Rc::new(RefCell::new(bus));
    let dynbus: Rc<RefCell<dyn SignBus>> = rc.clone();
    let sign = Sign::new(dynbus, Address(own), any_type());
    let r = if show { sign.show_loaded_page() } else { sign.load_next_page() };
    let b = rc.borrow();
    assert!(b.phase == Phase::Done);
    assert!(outcome_of(&r) == b.outcome);
    assert!(!b.sent_after_dead && !b.foreign_address_sent);
    kani::cover!(r.is_ok() && b.polls >= 1 && b.n_msgs >= max_polls, "cov_ok_after_polling");
    kani::cover!(b.outcome == Outcome::Unexpected, "cov_unexpected");
    core::mem::forget(r);
}

#[kani::proof]
#[kani::unwind(8)]
#[kani::stub(alloc::fmt::format, stub_format)]
fn c10_show_loaded_page_bounded() {
    run_switch(true, 5);
}

#[kani::proof]
#[kani::unwind(8)]
#[kani::stub(alloc::fmt::format, stub_format)]
fn c10_load_next_page_bounded() {
    run_switch(false, 5);
}

// ------------------------------------------------------------------------------------------ send_pages

fn run_send_pages<const N: usize>(dims: [(u32, u32); N], bufs: &[[u8; 64]; N]) {
    let own: u16 = kani::any();
    let mut bus = Bus::new(own, Kind::SendPages, Phase::ReqRecv);
    bus.recv_op = O_RECV_PIX;
    bus.success = S_PIX_RECV;
    bus.failure = S_PIX_FAIL;
    bus.n_items = N;
    let mut pages: Vec<Page<'_>> = Vec::with_capacity(N);
    let mut i = 0;
    while i < N {
        let (w, h) = dims[i];
        let len = (4 + (w as usize) * ((h as usize + 7) / 8) + 15) / 16 * 16;
        assert!(len <= 64);
        match Page::from_bytes(w, h, &bufs[i][..len]) {
            Ok(p) => pages.push(p),
            Err(e) => {
            core::mem::forget(e); // never drop an error value in a harness: its drop glue drags in every dyn Error
            panic!("page construction")
        }
        }
        bus.items[i] = (bufs[i].as_ptr(), len);
        i += 1;
    }
    let rc = Rc::new(RefCell::new(bus));
    let dynbus: Rc<RefCell<dyn SignBus>> = rc.clone();
    let sign = Sign::new(dynbus, Address(own), any_type());
    let r = sign.send_pages(&pages);
    let b = rc.borrow();
    assert!(b.phase == Phase::Done);
    match (&r, b.outcome) {
        (Ok(PageFlipStyle::Automatic), Outcome::OkAutomatic) => {}
        (Ok(PageFlipStyle::Manual), Outcome::Ok) => {}
        (Err(SignError::UnexpectedResponse { .. }), Outcome::Unexpected) => {}
        (Err(SignError::Bus { .. }), Outcome::BusError) => {}
        _ => panic!("outcome differs from the documented protocol"),
    }
    c11_common(&b);
    if r.is_ok() {
        assert!(b.recv_requests >= 1);
    }
    kani::cover!(matches!(r, Ok(PageFlipStyle::Automatic)), "cov_ok_automatic");
    kani::cover!(matches!(r, Ok(PageFlipStyle::Manual)) && b.attempt == 3, "cov_ok_manual_third_attempt");
    kani::cover!(b.outcome == Outcome::Unexpected && b.attempt == 3, "cov_gives_up");
    core::mem::forget(r);
}

#[kani::proof]
#[kani::unwind(5)]
#[kani::stub(alloc::fmt::format, stub_format)]
fn c09_send_pages_empty_list() {
    let bufs: [[u8; 64]; 0] = [];
    run_send_pages::<0>([], &bufs);
}

#[kani::proof]
#[kani::unwind(5)]
#[kani::stub(alloc::fmt::format, stub_format)]
fn c09_send_pages_one_page_16() {
    let bufs: [[u8; 64]; 1] = [kani::any()];
    run_send_pages::<1>([(2, 8)], &bufs);
}

#[kani::proof]
#[kani::unwind(5)]
#[kani::stub(alloc::fmt::format, stub_format)]
fn c09_send_pages_one_page_48() {
    let bufs: [[u8; 64]; 1] = [kani::any()];
    run_send_pages::<1>([(30, 7)], &bufs);
}

#[kani::proof]
#[kani::unwind(5)]
#[kani::stub(alloc::fmt::format, stub_format)]
fn c09_send_pages_two_pages_16_32() {
    let bufs: [[u8; 64]; 2] = [kani::any(), kani::any()];
    run_send_pages::<2>([(2, 8), (20, 8)], &bufs);
}

/// Vacuity canary for this package: must FAIL.
#[kani::proof]
fn canary_must_fail() {
    let x: u8 = kani::any();
    assert!(x != 7);
}

#[kani::proof] #[kani::unwind(5)] #[kani::stub(alloc::fmt::format, stub_format)]
fn exp_v1() { unsafe { EXP_MODE = 1; } let bufs: [[u8; 64]; 0] = []; run_send_pages::<0>([], &bufs); }
#[kani::proof] #[kani::unwind(5)] #[kani::stub(alloc::fmt::format, stub_format)]
fn exp_v2() { unsafe { EXP_MODE = 2; } let bufs: [[u8; 64]; 0] = []; run_send_pages::<0>([], &bufs); }
#[kani::proof] #[kani::unwind(5)] #[kani::stub(alloc::fmt::format, stub_format)]
fn exp_v3() { unsafe { EXP_MODE = 3; } let bufs: [[u8; 64]; 0] = []; run_send_pages::<0>([], &bufs); }
