// Overlaid as a child module of flipdot::sign. C09 / C10 / C11: every controller operation against a bus whose every
// reply is nondeterministic (None, any state report from any address, any acknowledgement from any address, an
// unrelated message, an unknown frame, or a bus error), i.e. all reply scripts at once.
//
//  * C10: a MONITOR (the documented protocol, written as a phase machine independent of sign.rs) checks every
//    outgoing message against what the protocol prescribes for the replies seen so far, and the final outcome.
//  * C09: the monitor's data-phase expectations: ack before data, per item offsets 0,16,32.., chunk i is
//    bytes[16i .. min(16i+16, len)] of the item (pointer identity => concatenation equals the item), chunk count ==
//    chunks since the request, in every retry attempt; configuration item == sign_type.to_bytes().
//  * C11: log invariants that do not use the monitor: own address on everything, nothing after a bus error or a
//    disallowed reply (fail-stop), <= 3 receive requests and retries only after a 'failed' report from the own
//    address, success only after a 'received' report from the own address answering the last state query.
#![allow(dead_code, unused_imports, unused_variables, unused_results, unsafe_code, static_mut_refs)]
use super::*;
use crate::core::{Frame, MsgType};
use std::error::Error;

//@include sign_monitor.rs

// ---- contract stubs for the two private transport functions of Sign -------------------------------------------
// Sign::send_message(m)                       = hand m to the bus; return its reply, or SignError::Bus if the bus failed
// Sign::send_message_expect_response(m, e)    = send_message(m)?; Ok(()) iff the reply equals e, else UnexpectedResponse
// These two contracts are proved about the REAL functions against the real Rc<RefCell<dyn SignBus>> plumbing by
// c10_unit_send_message / c10_unit_send_message_expect_response (one exchange each, every message, every reply). Every
// longer conversation is then verified with the two functions replaced by these stubs (caller against callee contract),
// which keeps RefCell / dyn dispatch / Box<dyn Error> out of the long harnesses.
static mut MON: *mut Bus = core::ptr::null_mut();

fn mon_exchange(message: &Message<'_>) -> Rep {
    let b: &mut Bus = unsafe { &mut *MON };
    b.exchange(message)
}

fn stub_send_message<'s>(_s: &'s Sign, message: Message<'_>) -> Result<Option<Message<'s>>, SignError> {
    let r = mon_exchange(&message);
    core::mem::forget(message);
    match reply_value(r) {
        Ok(x) => Ok(x),
        Err(e) => Err(SignError::Bus { source: e }),
    }
}

/// does the abstract reply equal the expected response?
fn rep_matches(r: Rep, expected: &Option<Message<'_>>) -> bool {
    match expected {
        None => r == Rep::None,
        Some(Message::AckOperation(a, o)) => r == Rep::Ack(a.0, op_idx(*o)),
        Some(Message::ReportState(a, s)) => r == Rep::Report(a.0, state_idx(*s)),
        Some(Message::Goodbye(a)) => r == Rep::OtherMsg(a.0),
        Some(_) => false, // the controller never expects anything else
    }
}

fn stub_send_message_expect_response(_s: &Sign, message: Message<'_>, expected: &Option<Message<'_>>) -> Result<(), SignError> {
    let r = mon_exchange(&message);
    core::mem::forget(message);
    if r == Rep::Err {
        Err(SignError::Bus { source: Box::new(BusFailure) })
    } else if rep_matches(r, expected) {
        Ok(())
    } else {
        Err(SignError::UnexpectedResponse { expected: String::new(), actual: String::new() })
    }
}

fn stub_format(_args: core::fmt::Arguments<'_>) -> String {
    String::new()
}

fn outcome_of<T>(r: &Result<T, SignError>) -> Outcome {
    match r {
        Ok(_) => Outcome::Ok,
        Err(SignError::UnexpectedResponse { .. }) => Outcome::Unexpected,
        Err(SignError::Bus { .. }) => Outcome::BusError,
    }
}

fn c11_common(b: &Bus) {
    assert!(!b.sent_after_dead); // fail-stop: nothing after a bus error or a reply the protocol never allows
    assert!(!b.foreign_address_sent); // every addressed message carries the own address
    assert!(b.recv_requests <= 3); // at most three transfer attempts
    assert!(!b.retry_without_failed_report); // a retry only directly after the own sign reported 'failed'
}

fn any_type() -> SignType {
    let ti: usize = kani::any();
    kani::assume(ti < 11);
    TYPES[ti]
}

fn config_of(t: SignType) -> [u8; 16] {
    let b = t.to_bytes();
    assert!(b.len() == 16);
    [b[0], b[1], b[2], b[3], b[4], b[5], b[6], b[7], b[8], b[9], b[10], b[11], b[12], b[13], b[14], b[15]]
}

// ------------------------------------------------------------------------------------------ configure

fn run_configure(if_needed: bool) {
    let own: u16 = kani::any();
    let t = any_type();
    let mut bus = Bus::new(own, Kind::Configure, if if_needed { Phase::IfNeededHello } else { Phase::Hello0 });
    bus.n_items = 1;
    bus.items[0] = (core::ptr::null(), 16);
    bus.config = config_of(t);
    let rc = Rc::new(RefCell::new(bus));
    unsafe {
        MON = rc.as_ptr(); // the contract stubs of send_message / send_message_expect_response talk to the monitor directly
    }
    let dynbus: Rc<RefCell<dyn SignBus>> = rc.clone();
    let sign = Sign::new(dynbus, Address(own), t);
    let r = if if_needed { sign.configure_if_needed() } else { sign.configure() };
    let b = rc.borrow();
    // C10: the conversation ran to the prescribed end, with the prescribed outcome
    assert!(b.phase == Phase::Done);
    assert!(outcome_of(&r) == b.outcome);
    // C11
    c11_common(&b);
    if r.is_ok() && b.recv_requests > 0 {
        assert!(b.last_query_reply_own_success); // success only if the concluding report was 'received' from the own address
    }
    kani::cover!(r.is_ok() && b.attempt == 3, "cov_ok_on_third_attempt");
    kani::cover!(b.outcome == Outcome::Unexpected && b.attempt == 3, "cov_gives_up");
    kani::cover!(r.is_ok() && b.n_msgs >= 17, "cov_longest_conversation");
    core::mem::forget(r);
}

#[kani::proof]
#[kani::unwind(4)]
#[kani::stub(alloc::fmt::format, stub_format)]
#[kani::stub(Sign::send_message, stub_send_message)]
#[kani::stub(Sign::send_message_expect_response, stub_send_message_expect_response)]
fn c10_configure_all_reply_scripts() {
    run_configure(false);
}

#[kani::proof]
#[kani::unwind(4)]
#[kani::stub(alloc::fmt::format, stub_format)]
#[kani::stub(Sign::send_message, stub_send_message)]
#[kani::stub(Sign::send_message_expect_response, stub_send_message_expect_response)]
fn c10_configure_if_needed_all_reply_scripts() {
    run_configure(true);
}

// ------------------------------------------------------------------------------------------ transport units (real plumbing)
fn any_out_message<'a>(own: u16) -> Message<'a> {
    let k: u8 = kani::any();
    let oi: usize = kani::any();
    kani::assume(oi < 6);
    match k {
        0 => Message::Hello(Address(own)),
        1 => Message::QueryState(Address(own)),
        2 => Message::RequestOperation(Address(own), OPS[oi]),
        3 => Message::DataChunksSent(ChunkCount(kani::any())),
        4 => Message::PixelsComplete(Address(own)),
        5 => Message::Goodbye(Address(own)),
        _ => Message::SendData(Offset(kani::any()), Data::from(&[1, 2, 3])),
    }
}

/// unit: the REAL Sign::send_message over the real Rc<RefCell<dyn SignBus>>: exactly one bus call with exactly that
/// message; the reply is returned unchanged; a bus failure becomes SignError::Bus.
#[kani::proof]
#[kani::unwind(4)]
#[kani::stub(alloc::fmt::format, stub_format)]
fn c10_unit_send_message() {
    let own: u16 = kani::any();
    let mut bus = Bus::new(own, Kind::Transport, Phase::Done);
    let rc = Rc::new(RefCell::new(bus));
    let dynbus: Rc<RefCell<dyn SignBus>> = rc.clone();
    let sign = Sign::new(dynbus, Address(own), any_type());
    let m = any_out_message(own);
    let want = out_of(&m);
    let r = sign.send_message(m);
    let b = rc.borrow();
    assert!(b.n_msgs == 1 && b.last_out == want);
    match (&r, b.last_rep) {
        (Ok(None), Rep::None) => {}
        (Ok(Some(Message::ReportState(a, s))), Rep::Report(ra, rs)) => assert!(a.0 == ra && state_idx(*s) == rs),
        (Ok(Some(Message::AckOperation(a, o))), Rep::Ack(ra, ro)) => assert!(a.0 == ra && op_idx(*o) == ro),
        (Ok(Some(Message::Goodbye(a))), Rep::OtherMsg(ra)) => assert!(a.0 == ra),
        (Ok(Some(Message::Unknown(f))), Rep::UnknownFrame(ra, rt)) => assert!(f.address().0 == ra && f.message_type().0 == rt),
        (Err(SignError::Bus { .. }), Rep::Err) => {}
        _ => panic!("send_message did not return the bus's answer"),
    }
    kani::cover!(r.is_err(), "cov_bus_error");
    kani::cover!(matches!(r, Ok(Some(_))), "cov_reply");
    core::mem::forget(r);
}

/// unit: the REAL Sign::send_message_expect_response: Ok iff the reply equals the expected response (None, an
/// acknowledgement or a state report from the own address), UnexpectedResponse for every other reply, Bus for a bus failure.
#[kani::proof]
#[kani::unwind(4)]
#[kani::stub(alloc::fmt::format, stub_format)]
fn c10_unit_send_message_expect_response() {
    let own: u16 = kani::any();
    let mut bus = Bus::new(own, Kind::Transport, Phase::Done);
    let rc = Rc::new(RefCell::new(bus));
    let dynbus: Rc<RefCell<dyn SignBus>> = rc.clone();
    let sign = Sign::new(dynbus, Address(own), any_type());
    let m = any_out_message(own);
    let want = out_of(&m);
    let ek: u8 = kani::any();
    let (si, oi): (usize, usize) = (kani::any(), kani::any());
    kani::assume(si < 13 && oi < 6);
    let expected: Option<Message<'_>> = match ek {
        0 => None,
        1 => Some(Message::AckOperation(Address(own), OPS[oi])),
        _ => Some(Message::ReportState(Address(own), STATES[si])),
    };
    let r = sign.send_message_expect_response(m, &expected);
    let b = rc.borrow();
    assert!(b.n_msgs == 1 && b.last_out == want);
    match (&r, b.last_rep) {
        (Err(SignError::Bus { .. }), Rep::Err) => {}
        (_, Rep::Err) => panic!("bus failure not propagated"),
        (Ok(()), rep) => assert!(rep_matches(rep, &expected)),
        (Err(SignError::UnexpectedResponse { .. }), rep) => assert!(!rep_matches(rep, &expected)),
        _ => panic!("wrong error kind"),
    }
    kani::cover!(r.is_ok() && ek == 0, "cov_ok_none");
    kani::cover!(r.is_ok() && ek == 1, "cov_ok_ack");
    kani::cover!(matches!(r, Err(SignError::UnexpectedResponse { .. })) && ek == 2, "cov_unexpected_report");
    core::mem::forget(r);
}

// ------------------------------------------------------------------------------------------ modular units
// configure() = ensure_unconfigured()? ; send_data(once(to_bytes), ReceiveConfig, ConfigReceived, ConfigFailed)
// send_pages() = send_data(pages.map(as_bytes), ReceivePixels, PixelsReceived, PixelsFailed)? ; PixelsComplete ; QueryState
// Each callee is verified against the monitor on its own (all reply scripts), and each caller is verified with its
// callees replaced by contract stubs (`#[kani::stub]`): modular verification, caller against callee contract.

/// unit: ensure_unconfigured against every reply script (<= 7 exchanges)
#[kani::proof]
#[kani::unwind(4)]
#[kani::stub(alloc::fmt::format, stub_format)]
#[kani::stub(Sign::send_message, stub_send_message)]
#[kani::stub(Sign::send_message_expect_response, stub_send_message_expect_response)]
fn c10_ensure_unconfigured_all_reply_scripts() {
    let own: u16 = kani::any();
    let bus = Bus::new(own, Kind::EnsureUnconfigured, Phase::Hello0);
    let rc = Rc::new(RefCell::new(bus));
    unsafe {
        MON = rc.as_ptr(); // the contract stubs of send_message / send_message_expect_response talk to the monitor directly
    }
    let dynbus: Rc<RefCell<dyn SignBus>> = rc.clone();
    let sign = Sign::new(dynbus, Address(own), any_type());
    let r = sign.ensure_unconfigured();
    let b = rc.borrow();
    assert!(b.phase == Phase::Done);
    assert!(outcome_of(&r) == b.outcome);
    c11_common(&b);
    assert!(b.recv_requests == 0);
    kani::cover!(r.is_ok() && b.n_msgs == 1, "cov_already_unconfigured");
    kani::cover!(r.is_ok() && b.n_msgs == 3, "cov_finish_reset_only");
    kani::cover!(r.is_ok() && b.n_msgs == 5, "cov_full_reset_dance");
    kani::cover!(b.outcome == Outcome::Unexpected && b.n_msgs == 5, "cov_late_unexpected");
    kani::cover!(b.outcome == Outcome::BusError, "cov_bus_error");
    core::mem::forget(r);
}

/// unit: send_data. `free_attempt` = A: attempts 1..A-1 are clean failed attempts (the allowed replies, then the own
/// 'failed' report); attempt A is answered arbitrarily, except that for A < 3 it is not itself a clean failed attempt
/// (those scripts belong to A + 1). Every reply script falls in exactly one class A = 1, 2, 3: A is the first attempt
/// that is not a clean failed attempt (or 3). So the three harnesses together are complete over all scripts.
fn run_send_data_config(free_attempt: u32) {
    let own: u16 = kani::any();
    let t = any_type();
    let mut bus = Bus::new(own, Kind::SendDataConfig, Phase::ReqRecv);
    bus.n_items = 1;
    bus.items[0] = (core::ptr::null(), 16);
    bus.config = config_of(t);
    bus.free_attempt = free_attempt;
    let rc = Rc::new(RefCell::new(bus));
    unsafe {
        MON = rc.as_ptr(); // the contract stubs of send_message / send_message_expect_response talk to the monitor directly
    }
    let dynbus: Rc<RefCell<dyn SignBus>> = rc.clone();
    let sign = Sign::new(dynbus, Address(own), t);
    let config = t.to_bytes();
    let r = sign.send_data(&iter::once(config), Operation::ReceiveConfig, State::ConfigReceived, State::ConfigFailed);
    let b = rc.borrow();
    assert!(b.phase == Phase::Done);
    assert!(outcome_of(&r) == b.outcome);
    c11_common(&b);
    if r.is_ok() {
        assert!(b.last_query_reply_own_success);
    }
    assert!(b.recv_requests == free_attempt && b.attempt == free_attempt);
    kani::cover!(r.is_ok() && b.attempt == free_attempt, "cov_ok_in_free_attempt");
    kani::cover!(b.outcome == Outcome::Unexpected && b.attempt == free_attempt, "cov_unexpected_in_free_attempt");
    kani::cover!(b.outcome == Outcome::BusError, "cov_bus_error");
    core::mem::forget(r);
}
#[kani::proof]
#[kani::unwind(4)]
#[kani::stub(alloc::fmt::format, stub_format)]
#[kani::stub(Sign::send_message, stub_send_message)]
#[kani::stub(Sign::send_message_expect_response, stub_send_message_expect_response)]
fn c09_send_data_config_attempt1() {
    run_send_data_config(1);
}
#[kani::proof]
#[kani::unwind(4)]
#[kani::stub(alloc::fmt::format, stub_format)]
#[kani::stub(Sign::send_message, stub_send_message)]
#[kani::stub(Sign::send_message_expect_response, stub_send_message_expect_response)]
fn c09_send_data_config_attempt2() {
    run_send_data_config(2);
}
#[kani::proof]
#[kani::unwind(4)]
#[kani::stub(alloc::fmt::format, stub_format)]
#[kani::stub(Sign::send_message, stub_send_message)]
#[kani::stub(Sign::send_message_expect_response, stub_send_message_expect_response)]
fn c09_send_data_config_attempt3() {
    run_send_data_config(3);
}

fn run_send_data_pages<const N: usize>(dims: [(u32, u32); N], bufs: &[[u8; 64]; N], free_attempt: u32) {
    let own: u16 = kani::any();
    let mut bus = Bus::new(own, Kind::SendDataPages, Phase::ReqRecv);
    bus.recv_op = O_RECV_PIX;
    bus.success = S_PIX_RECV;
    bus.failure = S_PIX_FAIL;
    bus.n_items = N;
    bus.free_attempt = free_attempt;
    let mut pages: Vec<Page<'_>> = Vec::with_capacity(N);
    let mut i = 0;
    while i < N {
        let (w, h) = dims[i];
        let len = (4 + (w as usize) * ((h as usize + 7) / 8) + 15) / 16 * 16;
        assert!(len <= 64);
        match Page::from_bytes(w, h, &bufs[i][..len]) {
            Ok(p) => pages.push(p),
            Err(e) => {
                core::mem::forget(e);
                panic!("page construction")
            }
        }
        bus.items[i] = (bufs[i].as_ptr(), len);
        i += 1;
    }
    let rc = Rc::new(RefCell::new(bus));
    unsafe {
        MON = rc.as_ptr(); // the contract stubs of send_message / send_message_expect_response talk to the monitor directly
    }
    let dynbus: Rc<RefCell<dyn SignBus>> = rc.clone();
    let sign = Sign::new(dynbus, Address(own), any_type());
    let data = pages.iter().map(Page::as_bytes);
    let r = sign.send_data(&data, Operation::ReceivePixels, State::PixelsReceived, State::PixelsFailed);
    let b = rc.borrow();
    assert!(b.phase == Phase::Done);
    assert!(outcome_of(&r) == b.outcome);
    c11_common(&b);
    if r.is_ok() {
        assert!(b.last_query_reply_own_success);
    }
    kani::cover!(r.is_ok() && b.attempt == free_attempt, "cov_ok_in_free_attempt");
    kani::cover!(b.outcome == Outcome::Unexpected && b.attempt == free_attempt, "cov_unexpected_in_free_attempt");
    core::mem::forget(r);
}
macro_rules! send_data_pages_harness {
    ($name:ident, $n:expr, $dims:expr, $a:expr) => {
        #[kani::proof]
        #[kani::unwind(5)]
        #[kani::stub(alloc::fmt::format, stub_format)]
#[kani::stub(Sign::send_message, stub_send_message)]
#[kani::stub(Sign::send_message_expect_response, stub_send_message_expect_response)]
        fn $name() {
            let bufs: [[u8; 64]; $n] = kani::any();
            run_send_data_pages::<$n>($dims, &bufs, $a);
        }
    };
}
send_data_pages_harness!(c09_send_data_no_pages_attempt1, 0, [], 1);
send_data_pages_harness!(c09_send_data_no_pages_attempt2, 0, [], 2);
send_data_pages_harness!(c09_send_data_no_pages_attempt3, 0, [], 3);
send_data_pages_harness!(c09_send_data_page48_attempt1, 1, [(30, 7)], 1);
send_data_pages_harness!(c09_send_data_page48_attempt2, 1, [(30, 7)], 2);
send_data_pages_harness!(c09_send_data_page48_attempt3, 1, [(30, 7)], 3);
send_data_pages_harness!(c09_send_data_pages_16_32_attempt1, 2, [(2, 8), (20, 8)], 1);
send_data_pages_harness!(c09_send_data_pages_16_32_attempt2, 2, [(2, 8), (20, 8)], 2);
send_data_pages_harness!(c09_send_data_pages_16_32_attempt3, 2, [(2, 8), (20, 8)], 3);

// ---- callers, with callee contracts (stubs) -----------------------------------------------------------------
static mut CALLS: [u8; 4] = [0; 4]; // 1 = ensure_unconfigured, 2 = send_data, 3 = configure
static mut NCALLS: usize = 0;
static mut CALLEE_RESULT: [u8; 4] = [0; 4]; // per call: 0 Ok, 1 UnexpectedResponse, 2 Bus
static mut SD_OP: usize = 9;
static mut SD_SUCCESS: usize = 99;
static mut SD_FAILURE: usize = 99;
static mut SD_ITEMS: [(*const u8, usize); 3] = [(core::ptr::null(), 0); 3];
static mut SD_NITEMS: usize = 0;

fn callee_result(k: u8) -> Result<(), SignError> {
    unsafe {
        let i = NCALLS;
        if i < 4 {
            CALLS[i] = k;
        }
        NCALLS += 1;
        let c = if i < 4 { CALLEE_RESULT[i] } else { 0 };
        match c {
            0 => Ok(()),
            1 => Err(SignError::UnexpectedResponse { expected: String::new(), actual: String::new() }),
            _ => Err(SignError::Bus { source: Box::new(BusFailure) }),
        }
    }
}
fn stub_ensure_unconfigured(_s: &Sign) -> Result<(), SignError> {
    callee_result(1)
}
fn stub_configure(_s: &Sign) -> Result<(), SignError> {
    callee_result(3)
}
fn stub_send_data<'a, I>(_s: &Sign, data: &I, operation: Operation, success: State, failure: State) -> Result<(), SignError>
where
    I: Iterator<Item = &'a [u8]> + Clone,
{
    unsafe {
        SD_OP = op_idx(operation);
        SD_SUCCESS = state_idx(success);
        SD_FAILURE = state_idx(failure);
        let mut n = 0;
        for item in data.clone() {
            if n < 3 {
                SD_ITEMS[n] = (item.as_ptr(), item.len());
            }
            n += 1;
        }
        SD_NITEMS = n;
    }
    callee_result(2)
}
fn reset_calls() {
    unsafe {
        NCALLS = 0;
        CALLS = [0; 4];
        CALLEE_RESULT = kani::any();
        kani::assume(CALLEE_RESULT[0] <= 2 && CALLEE_RESULT[1] <= 2 && CALLEE_RESULT[2] <= 2 && CALLEE_RESULT[3] <= 2);
    }
}
fn outcome_code(c: u8) -> Outcome {
    match c {
        0 => Outcome::Ok,
        1 => Outcome::Unexpected,
        _ => Outcome::BusError,
    }
}

/// caller: configure() = ensure_unconfigured, then (only if that succeeded) send_data with exactly the sign type's
/// 16-byte block, ReceiveConfig, ConfigReceived / ConfigFailed; the first callee error is returned; no bus traffic of its own.
#[kani::proof]
#[kani::unwind(4)]
#[kani::stub(alloc::fmt::format, stub_format)]
#[kani::stub(Sign::send_message, stub_send_message)]
#[kani::stub(Sign::send_message_expect_response, stub_send_message_expect_response)]
#[kani::stub(Sign::ensure_unconfigured, stub_ensure_unconfigured)]
#[kani::stub(Sign::send_data, stub_send_data)]
fn c10_configure_composition() {
    let own: u16 = kani::any();
    let t = any_type();
    reset_calls();
    let bus = Bus::new(own, Kind::Configure, Phase::Done); // any message to the bus is a violation
    let rc = Rc::new(RefCell::new(bus));
    unsafe {
        MON = rc.as_ptr(); // the contract stubs of send_message / send_message_expect_response talk to the monitor directly
    }
    let dynbus: Rc<RefCell<dyn SignBus>> = rc.clone();
    let sign = Sign::new(dynbus, Address(own), t);
    let r = sign.configure();
    let (calls, n, res) = unsafe { (CALLS, NCALLS, CALLEE_RESULT) };
    assert!(rc.borrow().n_msgs == 0);
    assert!(n >= 1 && calls[0] == 1);
    if res[0] != 0 {
        assert!(n == 1 && outcome_of(&r) == outcome_code(res[0])); // fail-stop
    } else {
        assert!(n == 2 && calls[1] == 2);
        assert!(outcome_of(&r) == outcome_code(res[1]));
        let (op, su, fa, items, ni) = unsafe { (SD_OP, SD_SUCCESS, SD_FAILURE, SD_ITEMS, SD_NITEMS) };
        assert!(op == O_RECV_CFG && su == S_CFG_RECV && fa == S_CFG_FAIL);
        assert!(ni == 1 && items[0].1 == 16 && items[0].0 == t.to_bytes().as_ptr());
    }
    kani::cover!(r.is_ok(), "cov_ok");
    kani::cover!(n == 1 && !r.is_ok(), "cov_stops_after_failed_reset");
    core::mem::forget(r);
}

/// caller: configure_if_needed() = Hello; a ready state reported by the own address => nothing else; otherwise configure().
#[kani::proof]
#[kani::unwind(4)]
#[kani::stub(alloc::fmt::format, stub_format)]
#[kani::stub(Sign::send_message, stub_send_message)]
#[kani::stub(Sign::send_message_expect_response, stub_send_message_expect_response)]
#[kani::stub(Sign::configure, stub_configure)]
fn c10_configure_if_needed_composition() {
    let own: u16 = kani::any();
    reset_calls();
    let mut bus = Bus::new(own, Kind::Configure, Phase::IfNeededHello);
    let rc = Rc::new(RefCell::new(bus));
    unsafe {
        MON = rc.as_ptr(); // the contract stubs of send_message / send_message_expect_response talk to the monitor directly
    }
    let dynbus: Rc<RefCell<dyn SignBus>> = rc.clone();
    let sign = Sign::new(dynbus, Address(own), any_type());
    let r = sign.configure_if_needed();
    let b = rc.borrow();
    let (calls, n, res) = unsafe { (CALLS, NCALLS, CALLEE_RESULT) };
    assert!(b.n_msgs == 1); // exactly the Hello; everything else is configure()'s business
    c11_common(&b);
    if b.outcome == Outcome::BusError {
        assert!(n == 0 && outcome_of(&r) == Outcome::BusError);
    } else if b.phase == Phase::Done {
        assert!(n == 0 && r.is_ok()); // a ready state from the own address: trusted, nothing sent
    } else {
        assert!(b.phase == Phase::Hello0); // the monitor expects configure() to start now
        assert!(n == 1 && calls[0] == 3 && outcome_of(&r) == outcome_code(res[0]));
    }
    kani::cover!(n == 0 && r.is_ok(), "cov_trusted_ready_sign");
    kani::cover!(n == 1 && r.is_ok(), "cov_configured");
    kani::cover!(n == 1 && !r.is_ok(), "cov_configure_failed");
    core::mem::forget(r);
}

/// caller: send_pages(pages) = send_data(the pages' byte images in order, ReceivePixels, PixelsReceived / PixelsFailed),
/// then PixelsComplete (no reply allowed), then QueryState whose reply decides the flip style.
#[kani::proof]
#[kani::unwind(5)]
#[kani::stub(alloc::fmt::format, stub_format)]
#[kani::stub(Sign::send_message, stub_send_message)]
#[kani::stub(Sign::send_message_expect_response, stub_send_message_expect_response)]
#[kani::stub(Sign::send_data, stub_send_data)]
fn c10_send_pages_composition() {
    let own: u16 = kani::any();
    reset_calls();
    let bufs: [[u8; 64]; 2] = kani::any();
    let n_pages: usize = kani::any();
    kani::assume(n_pages <= 2);
    let mut pages: Vec<Page<'_>> = Vec::with_capacity(2);
    if n_pages >= 1 {
        match Page::from_bytes(2, 8, &bufs[0][..16]) {
            Ok(p) => pages.push(p),
            Err(e) => {
                core::mem::forget(e);
                panic!("page construction")
            }
        }
    }
    if n_pages >= 2 {
        match Page::from_bytes(30, 7, &bufs[1][..48]) {
            Ok(p) => pages.push(p),
            Err(e) => {
                core::mem::forget(e);
                panic!("page construction")
            }
        }
    }
    let mut bus = Bus::new(own, Kind::SendPagesTail, Phase::PixelsComplete);
    let rc = Rc::new(RefCell::new(bus));
    unsafe {
        MON = rc.as_ptr(); // the contract stubs of send_message / send_message_expect_response talk to the monitor directly
    }
    let dynbus: Rc<RefCell<dyn SignBus>> = rc.clone();
    let sign = Sign::new(dynbus, Address(own), any_type());
    let r = sign.send_pages(&pages);
    let b = rc.borrow();
    let (calls, n, res) = unsafe { (CALLS, NCALLS, CALLEE_RESULT) };
    assert!(n == 1 && calls[0] == 2);
    let (op, su, fa, items, ni) = unsafe { (SD_OP, SD_SUCCESS, SD_FAILURE, SD_ITEMS, SD_NITEMS) };
    assert!(op == O_RECV_PIX && su == S_PIX_RECV && fa == S_PIX_FAIL);
    assert!(ni == n_pages);
    if n_pages >= 1 {
        assert!(items[0] == (bufs[0].as_ptr(), 16));
    }
    if n_pages >= 2 {
        assert!(items[1] == (bufs[1].as_ptr(), 48));
    }
    c11_common(&b);
    if res[0] != 0 {
        assert!(b.n_msgs == 0); // fail-stop: nothing after a failed transfer
        match (&r, outcome_code(res[0])) {
            (Err(SignError::UnexpectedResponse { .. }), Outcome::Unexpected) | (Err(SignError::Bus { .. }), Outcome::BusError) => {}
            _ => panic!("transfer error not propagated"),
        }
    } else {
        assert!(b.phase == Phase::Done);
        match (&r, b.outcome) {
            (Ok(PageFlipStyle::Automatic), Outcome::OkAutomatic) => {}
            (Ok(PageFlipStyle::Manual), Outcome::Ok) => {}
            (Err(SignError::UnexpectedResponse { .. }), Outcome::Unexpected) => {}
            (Err(SignError::Bus { .. }), Outcome::BusError) => {}
            _ => panic!("outcome differs from the documented protocol"),
        }
    }
    kani::cover!(matches!(r, Ok(PageFlipStyle::Automatic)) && n_pages == 2, "cov_automatic");
    kani::cover!(matches!(r, Ok(PageFlipStyle::Manual)) && n_pages == 0, "cov_manual_empty_list");
    kani::cover!(res[0] == 2, "cov_transfer_bus_error");
    core::mem::forget(r);
}

// ------------------------------------------------------------------------------------------ shut_down

#[kani::proof]
#[kani::unwind(4)]
#[kani::stub(alloc::fmt::format, stub_format)]
#[kani::stub(Sign::send_message, stub_send_message)]
#[kani::stub(Sign::send_message_expect_response, stub_send_message_expect_response)]
fn c10_shut_down_all_reply_scripts() {
    let own: u16 = kani::any();
    let bus = Bus::new(own, Kind::ShutDown, Phase::Goodbye);
    let rc = Rc::new(RefCell::new(bus));
    unsafe {
        MON = rc.as_ptr(); // the contract stubs of send_message / send_message_expect_response talk to the monitor directly
    }
    let dynbus: Rc<RefCell<dyn SignBus>> = rc.clone();
    let sign = Sign::new(dynbus, Address(own), any_type());
    let r = sign.shut_down();
    let b = rc.borrow();
    assert!(b.phase == Phase::Done && b.n_msgs == 1);
    assert!(outcome_of(&r) == b.outcome);
    c11_common(&b);
    kani::cover!(r.is_ok(), "cov_ok");
    kani::cover!(b.outcome == Outcome::Unexpected, "cov_unexpected");
    kani::cover!(b.outcome == Outcome::BusError, "cov_bus_error");
    core::mem::forget(r);
}

// ------------------------------------------------------------------------------------------ show / load-next

fn run_switch(show: bool, max_polls: usize) {
    let own: u16 = kani::any();
    let mut bus = Bus::new(own, Kind::Switch, Phase::SwitchQuery);
    if show {
        bus.sw_target = S_SHOWN;
        bus.sw_trigger = S_LOADED;
        bus.sw_op = O_SHOW;
    } else {
        bus.sw_target = S_LOADED;
        bus.sw_trigger = S_SHOWN;
        bus.sw_op = O_LOAD_NEXT;
    }
    bus.max_polls = max_polls;
    let rc = Rc::new(RefCell::new(bus));
    unsafe {
        MON = rc.as_ptr(); // the contract stubs of send_message / send_message_expect_response talk to the monitor directly
    }
    let dynbus: Rc<RefCell<dyn SignBus>> = rc.clone();
    let sign = Sign::new(dynbus, Address(own), any_type());
    let r = if show { sign.show_loaded_page() } else { sign.load_next_page() };
    let b = rc.borrow();
    assert!(b.phase == Phase::Done);
    assert!(outcome_of(&r) == b.outcome);
    assert!(!b.sent_after_dead && !b.foreign_address_sent);
    kani::cover!(r.is_ok() && b.polls >= 1 && b.n_msgs >= max_polls, "cov_ok_after_polling");
    kani::cover!(b.outcome == Outcome::Unexpected, "cov_unexpected");
    core::mem::forget(r);
}

#[kani::proof]
#[kani::unwind(8)]
#[kani::stub(alloc::fmt::format, stub_format)]
#[kani::stub(Sign::send_message, stub_send_message)]
#[kani::stub(Sign::send_message_expect_response, stub_send_message_expect_response)]
fn c10_show_loaded_page_bounded() {
    run_switch(true, 5);
}

#[kani::proof]
#[kani::unwind(8)]
#[kani::stub(alloc::fmt::format, stub_format)]
#[kani::stub(Sign::send_message, stub_send_message)]
#[kani::stub(Sign::send_message_expect_response, stub_send_message_expect_response)]
fn c10_load_next_page_bounded() {
    run_switch(false, 5);
}

// ------------------------------------------------------------------------------------------ send_pages

fn run_send_pages<const N: usize>(dims: [(u32, u32); N], bufs: &[[u8; 64]; N]) {
    let own: u16 = kani::any();
    let mut bus = Bus::new(own, Kind::SendPages, Phase::ReqRecv);
    bus.recv_op = O_RECV_PIX;
    bus.success = S_PIX_RECV;
    bus.failure = S_PIX_FAIL;
    bus.n_items = N;
    let mut pages: Vec<Page<'_>> = Vec::with_capacity(N);
    let mut i = 0;
    while i < N {
        let (w, h) = dims[i];
        let len = (4 + (w as usize) * ((h as usize + 7) / 8) + 15) / 16 * 16;
        assert!(len <= 64);
        match Page::from_bytes(w, h, &bufs[i][..len]) {
            Ok(p) => pages.push(p),
            Err(e) => {
            core::mem::forget(e); // never drop an error value in a harness: its drop glue drags in every dyn Error
            panic!("page construction")
        }
        }
        bus.items[i] = (bufs[i].as_ptr(), len);
        i += 1;
    }
    let rc = Rc::new(RefCell::new(bus));
    unsafe {
        MON = rc.as_ptr(); // the contract stubs of send_message / send_message_expect_response talk to the monitor directly
    }
    let dynbus: Rc<RefCell<dyn SignBus>> = rc.clone();
    let sign = Sign::new(dynbus, Address(own), any_type());
    let r = sign.send_pages(&pages);
    let b = rc.borrow();
    assert!(b.phase == Phase::Done);
    match (&r, b.outcome) {
        (Ok(PageFlipStyle::Automatic), Outcome::OkAutomatic) => {}
        (Ok(PageFlipStyle::Manual), Outcome::Ok) => {}
        (Err(SignError::UnexpectedResponse { .. }), Outcome::Unexpected) => {}
        (Err(SignError::Bus { .. }), Outcome::BusError) => {}
        _ => panic!("outcome differs from the documented protocol"),
    }
    c11_common(&b);
    if r.is_ok() {
        assert!(b.recv_requests >= 1);
    }
    kani::cover!(matches!(r, Ok(PageFlipStyle::Automatic)), "cov_ok_automatic");
    kani::cover!(matches!(r, Ok(PageFlipStyle::Manual)) && b.attempt == 3, "cov_ok_manual_third_attempt");
    kani::cover!(b.outcome == Outcome::Unexpected && b.attempt == 3, "cov_gives_up");
    core::mem::forget(r);
}

#[kani::proof]
#[kani::unwind(5)]
#[kani::stub(alloc::fmt::format, stub_format)]
#[kani::stub(Sign::send_message, stub_send_message)]
#[kani::stub(Sign::send_message_expect_response, stub_send_message_expect_response)]
fn c09_send_pages_empty_list() {
    let bufs: [[u8; 64]; 0] = [];
    run_send_pages::<0>([], &bufs);
}

#[kani::proof]
#[kani::unwind(5)]
#[kani::stub(alloc::fmt::format, stub_format)]
#[kani::stub(Sign::send_message, stub_send_message)]
#[kani::stub(Sign::send_message_expect_response, stub_send_message_expect_response)]
fn c09_send_pages_one_page_16() {
    let bufs: [[u8; 64]; 1] = [kani::any()];
    run_send_pages::<1>([(2, 8)], &bufs);
}

#[kani::proof]
#[kani::unwind(5)]
#[kani::stub(alloc::fmt::format, stub_format)]
#[kani::stub(Sign::send_message, stub_send_message)]
#[kani::stub(Sign::send_message_expect_response, stub_send_message_expect_response)]
fn c09_send_pages_one_page_48() {
    let bufs: [[u8; 64]; 1] = [kani::any()];
    run_send_pages::<1>([(30, 7)], &bufs);
}

#[kani::proof]
#[kani::unwind(5)]
#[kani::stub(alloc::fmt::format, stub_format)]
#[kani::stub(Sign::send_message, stub_send_message)]
#[kani::stub(Sign::send_message_expect_response, stub_send_message_expect_response)]
fn c09_send_pages_two_pages_16_32() {
    let bufs: [[u8; 64]; 2] = [kani::any(), kani::any()];
    run_send_pages::<2>([(2, 8), (20, 8)], &bufs);
}

// ------------------------------------------------------------------------------------------ C08 (composition lemma)
// C08 is not a contract of one function: it is the composition of the controller (real Sign == the protocol MONITOR above,
// C10/C09/C11) with the virtual sign (real VirtualSign == spec_step, C13). The lemma below is over those two contract
// vocabularies only: the monitor, run as a GENERATOR of the prescribed messages, against spec_step, from every abstract
// sign state satisfying the C13 invariant. Pages are abstracted to (count, length): that chunks are the page bytes in
// order is C09 (pointer identity), that the buffer/page holds the chunks in order is C13 (content obligations).
mod sign_spec {
    use super::{Address, ChunkCount, Data, Message, Offset, Operation};
//@include shared_spec.rs
}
use sign_spec::{snap_inv, spec_step, Reply as SpecReply, Snap};

static ZEROS: [u8; 16] = [0; 16];

impl Bus {
    /// the message the protocol prescribes in the current phase (generator form of check_message)
    fn prescribed<'a>(&self) -> Option<Message<'a>> {
        let own = Address(self.own);
        Some(match self.phase {
            Phase::IfNeededHello | Phase::Hello0 | Phase::HelloReadyReset | Phase::HelloUnconf => Message::Hello(own),
            Phase::StartReset => Message::RequestOperation(own, Operation::StartReset),
            Phase::FinishReset => Message::RequestOperation(own, Operation::FinishReset),
            Phase::ReqRecv => Message::RequestOperation(own, OPS[self.recv_op]),
            Phase::Data => {
                let (_base, len) = self.items[self.item];
                let off = self.chunk * 16;
                let n = if len - off < 16 { len - off } else { 16 };
                let d = match Data::try_new(&ZEROS[..n]) {
                    Ok(d) => d,
                    Err(e) => {
                        core::mem::forget(e);
                        panic!("try_new")
                    }
                };
                Message::SendData(Offset(off as u16), d)
            }
            Phase::Count => Message::DataChunksSent(ChunkCount(self.chunks_sent)),
            Phase::QueryResult | Phase::QueryStyle | Phase::SwitchQuery => Message::QueryState(own),
            Phase::PixelsComplete => Message::PixelsComplete(own),
            Phase::Goodbye => Message::Goodbye(own),
            Phase::SwitchReq => Message::RequestOperation(own, OPS[self.sw_op]),
            Phase::Done => return None,
        })
    }
}

fn rep_of(r: SpecReply) -> Rep {
    match r {
        SpecReply::None => Rep::None,
        SpecReply::Report(a, s) => Rep::Report(a, s),
        SpecReply::Ack(a, o) => Rep::Ack(a, o),
    }
}

/// run the prescribed conversation of `bus` against the specified sign until the protocol says Done
fn converse(bus: &mut Bus, sign: &mut Snap, cfg: (u8, u32, u32, usize), max_steps: usize) {
    let mut k = 0;
    while k < max_steps {
        let m = match bus.prescribed() {
            Some(m) => m,
            None => return,
        };
        let (next, reply) = spec_step(sign, &m, cfg);
        *sign = next;
        bus.advance(rep_of(reply));
        core::mem::forget(m);
        k += 1;
    }
    assert!(bus.phase == Phase::Done); // the conversation ends within the bound
}

fn any_snap(own: u16) -> Snap {
    let s = Snap {
        address: own,
        auto: kani::any(),
        state: kani::any(),
        n_pages: kani::any(),
        pend_len: kani::any(),
        chunks: kani::any(),
        width: kani::any(),
        height: kani::any(),
        ty: kani::any(),
    };
    kani::assume(s.state < 13 && s.ty <= 11 && s.n_pages <= 8 && s.pend_len <= 4096);
    kani::assume(snap_inv(&s));
    s
}

fn cfg_for(ti: usize) -> (u8, u32, u32, usize) {
    let t = TYPES[ti];
    let (w, h) = t.dimensions();
    (t.to_bytes()[0], w, h, ti)
}

/// C08 (1/3), configure: from EVERY abstract prior state satisfying the invariant (all 13 protocol states incl. abandoned
/// half-finished transfers and a previous configuration as another type), for every sign type and both flip styles,
/// the prescribed conversation succeeds and leaves the sign configured as that type with no pages.
#[kani::proof]
#[kani::unwind(11)]
fn c08_configure_against_sign_machine() {
    let own: u16 = kani::any();
    let ti: usize = kani::any();
    kani::assume(ti < 11);
    let cfg = cfg_for(ti);
    let mut sign = any_snap(own);
    let s0 = sign.state;
    let mut bus = Bus::new(own, Kind::Configure, Phase::Hello0);
    bus.n_items = 1;
    bus.items[0] = (core::ptr::null(), 16);
    converse(&mut bus, &mut sign, cfg, 9);
    assert!(bus.outcome == Outcome::Ok);
    assert!(bus.attempt == 1);
    assert!(configured_as(&sign, ti) && sign.state == sign_spec::CFG_RECV && sign.n_pages == 0);
    kani::cover!(s0 == sign_spec::PIX_PROG, "cov_from_abandoned_pixel_transfer");
    kani::cover!(s0 == sign_spec::READY_RESET, "cov_from_ready_to_reset");
    kani::cover!(s0 == sign_spec::UNCONF, "cov_from_blank");
}

/// "configured as type ti, nothing buffered or counted": what configure establishes and send_pages preserves
fn configured_as(s: &Snap, ti: usize) -> bool {
    let cfg = cfg_for(ti);
    s.ty == ti && (s.width, s.height) == (cfg.1, cfg.2) && s.pend_len == 0 && s.chunks == 0
}

/// C08 (2/3), send_pages for one sign type: from every state in which the sign is configured as that type and may
/// receive pixels (right after configure, or loaded / shown / showing / in-progress after an earlier send, or after a
/// failed transfer) with any number of old pages, sending n = 0..=2 pages of that sign's size succeeds without a
/// retry, the sign holds exactly n pages, ends in PageLoaded (manual) / ShowingPages (automatic), and the call
/// reports the matching flip style.
fn send_pages_against_sign_machine(ti: usize) -> (bool, usize) {
    let own: u16 = kani::any();
    let cfg = cfg_for(ti);
    let mut sign = any_snap(own);
    let st = sign.state;
    kani::assume(st == sign_spec::CFG_RECV || st == sign_spec::PIX_FAIL || st == sign_spec::LOADED || st == sign_spec::LOAD_PROG || st == sign_spec::SHOWN || st == sign_spec::SHOW_PROG || st == sign_spec::SHOWING);
    kani::assume(configured_as(&sign, ti));
    let auto = sign.auto;
    let n: usize = kani::any();
    kani::assume(n <= 2);
    let page_len = sign_spec::padded_len(cfg.1, cfg.2);
    let mut bus = Bus::new(own, Kind::SendPages, Phase::ReqRecv);
    bus.recv_op = O_RECV_PIX;
    bus.success = S_PIX_RECV;
    bus.failure = S_PIX_FAIL;
    bus.n_items = n;
    bus.items[0] = (core::ptr::null(), page_len);
    bus.items[1] = (core::ptr::null(), page_len);
    converse(&mut bus, &mut sign, cfg, 2 * (page_len / 16) + 5);
    assert!(bus.attempt == 1);
    assert!(sign.n_pages == n && configured_as(&sign, ti));
    if auto {
        assert!(bus.outcome == Outcome::OkAutomatic && sign.state == sign_spec::SHOWING);
    } else {
        assert!(bus.outcome == Outcome::Ok && sign.state == sign_spec::LOADED);
    }
    (auto, n)
}
macro_rules! c08_send_pages_harness {
    ($name:ident, $ti:expr, $unwind:expr) => {
        #[kani::proof]
        #[kani::unwind($unwind)]
        fn $name() {
            let (auto, n) = send_pages_against_sign_machine($ti);
            kani::cover!(auto && n == 2, "cov_automatic_two_pages");
            kani::cover!(!auto && n == 0, "cov_manual_empty_list");
        }
    };
}
// unwind = 2 * chunks per page + 7
c08_send_pages_harness!(c08_send_pages_max3000_front_112x16, 0, 37);
c08_send_pages_harness!(c08_send_pages_max3000_front_98x16, 1, 35);
c08_send_pages_harness!(c08_send_pages_max3000_side_90x7, 2, 19);
c08_send_pages_harness!(c08_send_pages_max3000_rear_30x10, 3, 15);
c08_send_pages_harness!(c08_send_pages_max3000_rear_23x10, 4, 15);
c08_send_pages_harness!(c08_send_pages_max3000_dash_30x7, 5, 13);
c08_send_pages_harness!(c08_send_pages_horizon_front_160x16, 6, 49);
c08_send_pages_harness!(c08_send_pages_horizon_front_140x16, 7, 43);
c08_send_pages_harness!(c08_send_pages_horizon_side_96x8, 8, 21);
c08_send_pages_harness!(c08_send_pages_horizon_rear_48x16, 9, 21);
c08_send_pages_harness!(c08_send_pages_horizon_dash_40x12, 10, 19);

// ---- C08 (2/3) again, as an INDUCTIVE argument: any number of pages of any of the 11 sizes, no long conversation.
fn dims_as(s: &Snap, ti: usize) -> bool {
    let cfg = cfg_for(ti);
    s.ty == ti && (s.width, s.height) == (cfg.1, cfg.2)
}

/// one prescribed message against the specified sign
fn step_once(bus: &mut Bus, sign: &mut Snap, cfg: (u8, u32, u32, usize)) {
    let m = match bus.prescribed() {
        Some(m) => m,
        None => panic!("the protocol prescribes nothing further"),
    };
    let (next, reply) = spec_step(sign, &m, cfg);
    *sign = next;
    bus.advance(rep_of(reply));
    core::mem::forget(m);
}

/// transfer invariant between two data chunks: the sign has buffered exactly the chunks of the current page, stored
/// exactly the completed pages except the last completed one (which is stored when the next page starts or the count
/// arrives), and counted exactly the chunks sent
fn transfer_inv(bus: &Bus, sign: &Snap, ti: usize, page_len: usize) -> bool {
    let per_page = page_len / 16;
    sign.state == sign_spec::PIX_PROG
        && dims_as(sign, ti)
        && sign.chunks == bus.chunks_sent
        && bus.item <= MAX_ITEMS
        && bus.chunk < per_page
        && bus.chunks_sent as usize == bus.item * per_page + bus.chunk
        && if bus.chunk == 0 {
            if bus.item == 0 { sign.pend_len == 0 && sign.n_pages == 0 } else { sign.pend_len == page_len && sign.n_pages == bus.item - 1 }
        } else {
            sign.pend_len == 16 * bus.chunk && sign.n_pages == bus.item
        }
}

fn pixel_bus(own: u16, n: usize, page_len: usize, phase: Phase) -> Bus {
    let mut bus = Bus::new(own, Kind::SendPages, phase);
    bus.recv_op = O_RECV_PIX;
    bus.success = S_PIX_RECV;
    bus.failure = S_PIX_FAIL;
    bus.n_items = n;
    bus.items[0] = (core::ptr::null(), page_len);
    bus.items[1] = (core::ptr::null(), page_len);
    bus.items[2] = (core::ptr::null(), page_len);
    bus
}

/// base case: the receive request is acknowledged in every state in which pixels may be sent to a configured sign, the
/// old pages are dropped, and the transfer invariant holds at (page 0, chunk 0) — or the count is due for an empty list
#[kani::proof]
#[kani::unwind(5)]
fn c08_transfer_base_case() {
    let own: u16 = kani::any();
    let ti: usize = kani::any();
    kani::assume(ti < 11);
    let cfg = cfg_for(ti);
    let page_len = sign_spec::padded_len(cfg.1, cfg.2);
    let n: usize = kani::any();
    kani::assume(n <= 3);
    let mut sign = any_snap(own);
    let st = sign.state;
    kani::assume(st == sign_spec::CFG_RECV || st == sign_spec::PIX_FAIL || st == sign_spec::LOADED || st == sign_spec::LOAD_PROG || st == sign_spec::SHOWN || st == sign_spec::SHOW_PROG || st == sign_spec::SHOWING);
    kani::assume(configured_as(&sign, ti));
    let mut bus = pixel_bus(own, n, page_len, Phase::ReqRecv);
    step_once(&mut bus, &mut sign, cfg);
    if n == 0 {
        assert!(bus.phase == Phase::Count && sign.state == sign_spec::PIX_PROG && sign.n_pages == 0 && sign.pend_len == 0 && sign.chunks == 0 && dims_as(&sign, ti));
    } else {
        assert!(bus.phase == Phase::Data && bus.item == 0 && bus.chunk == 0);
        assert!(transfer_inv(&bus, &sign, ti, page_len));
    }
    kani::cover!(n == 0, "cov_empty_list");
    kani::cover!(n == 3 && st == sign_spec::SHOWING, "cov_resend_to_showing_sign");
}

/// inductive step: one data chunk from ANY point of ANY transfer (page index, chunk index symbolic) keeps the
/// invariant, or ends the data phase with the last page buffered and all earlier pages stored
#[kani::proof]
#[kani::unwind(5)]
fn c08_transfer_step_is_inductive() {
    let own: u16 = kani::any();
    let ti: usize = kani::any();
    kani::assume(ti < 11);
    let cfg = cfg_for(ti);
    let page_len = sign_spec::padded_len(cfg.1, cfg.2);
    let n: usize = kani::any();
    kani::assume(n >= 1 && n <= 3);
    let mut bus = pixel_bus(own, n, page_len, Phase::Data);
    bus.item = kani::any();
    bus.chunk = kani::any();
    bus.chunks_sent = kani::any();
    kani::assume(bus.item < n);
    let mut sign = any_snap(own);
    kani::assume(transfer_inv(&bus, &sign, ti, page_len));
    let (item0, chunk0) = (bus.item, bus.chunk);
    step_once(&mut bus, &mut sign, cfg);
    if bus.phase == Phase::Data {
        assert!(bus.item < n);
        assert!(transfer_inv(&bus, &sign, ti, page_len));
        assert!((bus.item, bus.chunk) == if (chunk0 + 1) * 16 < page_len { (item0, chunk0 + 1) } else { (item0 + 1, 0) });
    } else {
        // that was the last chunk of the last page
        assert!(bus.phase == Phase::Count && item0 == n - 1);
        assert!(sign.state == sign_spec::PIX_PROG && dims_as(&sign, ti));
        assert!(sign.pend_len == page_len && sign.n_pages == n - 1);
        assert!(sign.chunks == bus.chunks_sent && bus.chunks_sent as usize == n * (page_len / 16));
    }
    kani::cover!(bus.phase == Phase::Count && n == 3, "cov_last_chunk_of_third_page");
    kani::cover!(bus.phase == Phase::Data && bus.chunk == 0 && bus.item == 1, "cov_page_boundary");
    kani::cover!(ti == 6 && chunk0 == 20, "cov_21st_chunk_of_160x16");
}

/// final case: with all data sent, the count, the state query, PixelsComplete and the style query leave the sign with
/// exactly the n pages, in PageLoaded / ShowingPages, and the call reports the matching flip style, without a retry
#[kani::proof]
#[kani::unwind(6)]
fn c08_transfer_final_case() {
    let own: u16 = kani::any();
    let ti: usize = kani::any();
    kani::assume(ti < 11);
    let cfg = cfg_for(ti);
    let page_len = sign_spec::padded_len(cfg.1, cfg.2);
    let n: usize = kani::any();
    kani::assume(n <= 3);
    let mut bus = pixel_bus(own, n, page_len, Phase::Count);
    bus.item = n;
    bus.chunks_sent = (n * (page_len / 16)) as u16;
    let mut sign = any_snap(own);
    kani::assume(sign.state == sign_spec::PIX_PROG && dims_as(&sign, ti) && sign.chunks == bus.chunks_sent);
    kani::assume(if n == 0 { sign.pend_len == 0 && sign.n_pages == 0 } else { sign.pend_len == page_len && sign.n_pages == n - 1 });
    let auto = sign.auto;
    converse(&mut bus, &mut sign, cfg, 4);
    assert!(bus.attempt == 1);
    assert!(sign.n_pages == n && configured_as(&sign, ti));
    if auto {
        assert!(bus.outcome == Outcome::OkAutomatic && sign.state == sign_spec::SHOWING);
    } else {
        assert!(bus.outcome == Outcome::Ok && sign.state == sign_spec::LOADED);
    }
    kani::cover!(auto && n == 3, "cov_automatic_three_pages");
    kani::cover!(!auto && n == 0, "cov_manual_empty_list");
}

/// C08 (3/3), show / load-next: from the states send_pages ends in (and the ones these two operations end in), a
/// manual sign moves to shown / loaded, an automatic sign is left alone, and both calls succeed.
#[kani::proof]
#[kani::unwind(8)]
fn c08_show_and_load_next_against_sign_machine() {
    let own: u16 = kani::any();
    let ti: usize = kani::any();
    kani::assume(ti < 11);
    let cfg = cfg_for(ti);
    let mut sign = any_snap(own);
    let auto = sign.auto;
    let show_first: bool = kani::any();
    kani::assume(configured_as(&sign, ti));
    kani::assume(if auto { sign.state == sign_spec::SHOWING } else { sign.state == sign_spec::LOADED || sign.state == sign_spec::SHOWN });
    let n0 = sign.n_pages;
    let mut round = 0;
    while round < 2 {
        let show = (round == 0) == show_first;
        let mut bus = Bus::new(own, Kind::Switch, Phase::SwitchQuery);
        if show {
            bus.sw_target = S_SHOWN;
            bus.sw_trigger = S_LOADED;
            bus.sw_op = O_SHOW;
        } else {
            bus.sw_target = S_LOADED;
            bus.sw_trigger = S_SHOWN;
            bus.sw_op = O_LOAD_NEXT;
        }
        converse(&mut bus, &mut sign, cfg, 5);
        assert!(bus.outcome == Outcome::Ok);
        assert!(sign.state == if auto { sign_spec::SHOWING } else if show { sign_spec::SHOWN } else { sign_spec::LOADED });
        assert!(sign.n_pages == n0 && configured_as(&sign, ti));
        round += 1;
    }
    kani::cover!(!auto && show_first, "cov_manual_show_then_load");
    kani::cover!(auto, "cov_automatic_noop");
}

/// C08, configure_if_needed: quantified over the prior states in which the sign either is not in a ready-to-receive
/// state or records the same sign type (by contract it trusts a sign that reports itself ready).
#[kani::proof]
#[kani::unwind(12)]
fn c08_configure_if_needed_against_sign_machine() {
    let own: u16 = kani::any();
    let ti: usize = kani::any();
    kani::assume(ti < 11);
    let cfg = cfg_for(ti);
    let mut sign = any_snap(own);
    let s0 = sign.state;
    let ready = s0 == sign_spec::CFG_RECV || s0 == sign_spec::SHOWING || s0 == sign_spec::LOADED || s0 == sign_spec::SHOW_PROG || s0 == sign_spec::SHOWN || s0 == sign_spec::LOAD_PROG;
    // exactly the quantifier of the property: not ready-to-receive, or recording the same sign type (that the recorded size is
    // then that type's size is part of the invariant proved for the virtual sign: type_ok in snap_inv)
    kani::assume(!ready || sign.ty == ti);
    let mut bus = Bus::new(own, Kind::Configure, Phase::IfNeededHello);
    bus.n_items = 1;
    bus.items[0] = (core::ptr::null(), 16);
    converse(&mut bus, &mut sign, cfg, 10);
    assert!(bus.outcome == Outcome::Ok);
    assert!(sign.ty == ti && (sign.width, sign.height) == (cfg.1, cfg.2));
    // the sign can now receive pixels: ReceivePixels is legal in its state
    let st = sign.state;
    assert!(st == sign_spec::CFG_RECV || st == sign_spec::SHOWING || st == sign_spec::LOADED || st == sign_spec::SHOWN || st == sign_spec::SHOW_PROG || st == sign_spec::LOAD_PROG);
    kani::cover!(ready, "cov_trusted_ready_sign");
    kani::cover!(!ready && s0 == sign_spec::PIX_PROG, "cov_abandoned_transfer_is_reset");
}

/// Vacuity canary for this package: must FAIL.
#[kani::proof]
fn canary_must_fail() {
    let x: u8 = kani::any();
    assert!(x != 7);
}


