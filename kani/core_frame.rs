// Overlaid as a child module of flipdot_core::frame.
//  * discharges the two contracts the Verus proof of frame.rs uses without seeing the bodies:
//      checksum  (E-rw-6): #[kani::requires/ensures] attached by the overlay, proof_for_contract below
//      parse_hex (E-rw-5): every 2-character / 4-character hex string (full domain of the two instantiations)
//  * checks the three capacity self-checks (assert_eq! on Vec::capacity, dropped from the Verus text, E-drop-2)
//    on the real code at fixed data lengths (bounded stand-in).
#![allow(dead_code, unused_imports, unused_variables, unused_results, unsafe_code, static_mut_refs)]
use super::*;

pub(crate) const CHECKSUM_MAX: usize = 259; // 4 header bytes + 255 data bytes: Verus proves len <= 259 at both call sites

/// executable transcription of the Verus spec function lrc()
pub(crate) fn spec_lrc(bytes: &[u8]) -> u8 {
    let mut acc: u8 = 0;
    let mut i = 0;
    while i < bytes.len() {
        acc = acc.wrapping_sub(bytes[i]);
        i += 1;
    }
    acc
}

#[kani::proof_for_contract(checksum)]
#[kani::unwind(261)]
fn checksum_contract() {
    let arr: [u8; CHECKSUM_MAX] = kani::any();
    let n: usize = kani::any();
    kani::assume(n <= CHECKSUM_MAX);
    let _ = checksum(&arr[..n]);
}

fn is_hex(c: u8) -> bool {
    (48 <= c && c <= 57) || (65 <= c && c <= 70) || (97 <= c && c <= 102)
}
fn hex_val(c: u8) -> u8 {
    if 48 <= c && c <= 57 {
        c - 48
    } else if 65 <= c && c <= 70 {
        c - 55
    } else {
        c - 87
    }
}

/// parse_hex::<u8> on every string of two hex digits (either case): total, and equal to the spec value.
#[kani::proof]
#[kani::unwind(6)]
fn parse_hex_u8_contract() {
    let b: [u8; 2] = kani::any();
    kani::assume(is_hex(b[0]) && is_hex(b[1]));
    let r: u8 = parse_hex::<u8>(&b);
    assert!(r == hex_val(b[0]) * 16 + hex_val(b[1]));
    kani::cover!(b[0] == b'f' && b[1] == b'F', "cov_mixed_case");
    kani::cover!(r == 0, "cov_zero");
}

/// parse_hex::<u16> on every string of four hex digits.
#[kani::proof]
#[kani::unwind(8)]
fn parse_hex_u16_contract() {
    let b: [u8; 4] = kani::any();
    kani::assume(is_hex(b[0]) && is_hex(b[1]) && is_hex(b[2]) && is_hex(b[3]));
    let r: u16 = parse_hex::<u16>(&b);
    let hi = u16::from(hex_val(b[0])) * 16 + u16::from(hex_val(b[1]));
    let lo = u16::from(hex_val(b[2])) * 16 + u16::from(hex_val(b[3]));
    assert!(r == hi * 256 + lo);
    kani::cover!(r == 0xFFFF, "cov_ffff");
    kani::cover!(b[0] == b'a' && b[3] == b'A', "cov_mixed_case");
}

fn hex_digit(n: u8) -> u8 {
    if n < 10 {
        48 + n
    } else {
        55 + n
    }
}

/// Bounded stand-in for E-drop-2: the capacity self-checks in payload / to_bytes / to_bytes_with_newline do not
/// fire, and the output equals the executable spec, at a fixed data length with symbolic contents.
fn capacity_asserts_at<const N: usize>() {
    let addr: u16 = kani::any();
    let ty: u8 = kani::any();
    let bytes: [u8; N] = kani::any();
    let data = match Data::try_new(&bytes[..]) {
        Ok(d) => d,
        Err(e) => {
            core::mem::forget(e); // never drop an error value in a harness: its drop glue drags in every dyn Error
            panic!("try_new rejected a short block")
        }
    };
    let f = Frame::new(Address(addr), MsgType(ty), data);
    let out = f.to_bytes_with_newline();
    assert!(out.len() == 11 + 2 * N + 2);
    assert!(out[0] == b':');
    assert!(out[1] == hex_digit((N as u8) >> 4) && out[2] == hex_digit((N as u8) & 0x0F));
    assert!(out[3] == hex_digit((addr >> 12) as u8) && out[6] == hex_digit((addr & 0x0F) as u8));
    assert!(out[7] == hex_digit(ty >> 4) && out[8] == hex_digit(ty & 0x0F));
    if N > 0 {
        assert!(out[9] == hex_digit(bytes[0] >> 4) && out[10] == hex_digit(bytes[0] & 0x0F));
    }
    assert!(out[out.len() - 2] == b'\r' && out[out.len() - 1] == b'\n');
    kani::cover!(out[out.len() - 3] == b'F', "cov_checksum_digit_f");
}

#[kani::proof]
#[kani::unwind(20)]
fn frame_capacity_asserts_len0() {
    capacity_asserts_at::<0>();
}
#[kani::proof]
#[kani::unwind(20)]
fn frame_capacity_asserts_len1() {
    capacity_asserts_at::<1>();
}
#[kani::proof]
#[kani::unwind(24)]
fn frame_capacity_asserts_len2() {
    capacity_asserts_at::<2>();
}
#[kani::proof]
#[kani::unwind(60)]
fn frame_capacity_asserts_len16() {
    capacity_asserts_at::<16>();
}

#[kani::proof]
#[kani::unwind(140)]
fn frame_capacity_asserts_len64() {
    capacity_asserts_at::<64>();
}

/// Bounded stand-in for E-rw-4: chunks(2).map(parse_hex::<u8>).collect() on a hex string of exactly 3 pairs.
#[kani::proof]
#[kani::unwind(8)]
fn chunks_map_collect_pipeline() {
    let s: [u8; 6] = kani::any();
    kani::assume(is_hex(s[0]) && is_hex(s[1]) && is_hex(s[2]) && is_hex(s[3]) && is_hex(s[4]) && is_hex(s[5]));
    let v = s[..].chunks(2).map(parse_hex::<u8>).collect::<Vec<_>>();
    assert!(v.len() == 3);
    assert!(v[0] == hex_val(s[0]) * 16 + hex_val(s[1]));
    assert!(v[1] == hex_val(s[2]) * 16 + hex_val(s[3]));
    assert!(v[2] == hex_val(s[4]) * 16 + hex_val(s[5]));
    kani::cover!(v[2] == 0xAB, "cov_ab");
}

// ------------------------------------------------------------------------------------------ C15 (BOUNDED stand-in)
// Frame::read = BufReader::with_capacity(1, r).read_until(b'\n') + from_bytes; Frame::write = write_all(to_bytes_with_newline()).
// The real std code is executed by Kani on adversarial Read / Write implementations; the stream length is the bound.
use std::io::{self, Read, Write};

const TAPE: usize = 4;

struct Tape {
    data: [u8; TAPE],
    len: usize,
    pos: usize,
    calls: usize,
    interrupt_at: [usize; 2], // the n-th read call reports Interrupted (0 = never)
    hard_error_at: usize,     // the n-th read call fails hard (0 = never)
    lf_delivered: bool,
    reads_after_lf: usize,
    max_request: usize,
    hard_error_fired: bool,
}
impl Read for Tape {
    fn read(&mut self, buf: &mut [u8]) -> io::Result<usize> {
        self.calls += 1;
        if buf.len() > self.max_request {
            self.max_request = buf.len();
        }
        if self.lf_delivered {
            self.reads_after_lf += 1;
        }
        if self.calls == self.hard_error_at {
            self.hard_error_fired = true;
            return Err(io::Error::from(io::ErrorKind::BrokenPipe));
        }
        if self.calls == self.interrupt_at[0] || self.calls == self.interrupt_at[1] {
            return Err(io::Error::from(io::ErrorKind::Interrupted));
        }
        if self.pos >= self.len || buf.is_empty() {
            return Ok(0);
        }
        let b = self.data[self.pos];
        buf[0] = b; // a short read: one byte, however large the request
        self.pos += 1;
        if b == b'\n' {
            self.lf_delivered = true;
        }
        Ok(1)
    }
}

static mut FB_CALLS: usize = 0;
static mut FB_LEN: usize = 0;
static mut FB_BYTES: [u8; TAPE] = [0; TAPE];
static mut FB_FAILS: bool = false;

/// contract stub for Frame::from_bytes (the decoder itself is C01/C03): records the line it is given
#[allow(unsafe_code)]
fn stub_from_bytes<'a>(bytes: &[u8]) -> Result<Frame<'a>, FrameError>
where
    'a: 'a,
{
    unsafe {
        FB_CALLS += 1;
        FB_LEN = bytes.len();
        let mut i = 0;
        while i < TAPE {
            if i < bytes.len() {
                FB_BYTES[i] = bytes[i];
            }
            i += 1;
        }
        if FB_FAILS {
            Err(FrameError::InvalidFrame { data: Vec::new() })
        } else {
            Ok(Frame::new(Address(0x1234), MsgType(0x56), Data::from(&[])))
        }
    }
}

/// C15 read side, BOUNDED: every tape of length 0..=max_len with arbitrary contents (the line feed anywhere or nowhere,
/// bytes after it), Interrupted results (if allowed) and a hard error at arbitrary call indices.
#[allow(unsafe_code)]
fn read_consumes_exactly_one_line(max_len: usize, interrupts: bool) -> (bool, usize, usize, usize, usize, bool) {
    let mut tape = Tape {
        data: kani::any(),
        len: kani::any(),
        pos: 0,
        calls: 0,
        interrupt_at: if interrupts { kani::any() } else { [0, 0] },
        hard_error_at: kani::any(),
        lf_delivered: false,
        reads_after_lf: 0,
        max_request: 0,
        hard_error_fired: false,
    };
    kani::assume(tape.len <= max_len);
    kani::assume(tape.interrupt_at[0] <= 4 && tape.interrupt_at[1] <= 4 && tape.hard_error_at <= 6);
    unsafe {
        FB_CALLS = 0;
        FB_FAILS = kani::any();
    }
    // reference: the line = bytes up to and including the first LF (or the whole tape at end of stream)
    let mut line_len = tape.len;
    let mut i = TAPE;
    while i > 0 {
        i -= 1;
        if i < tape.len && tape.data[i] == b'\n' {
            line_len = i + 1;
        }
    }
    let r = Frame::read(&mut tape);
    assert!(tape.max_request <= 1); // one byte at a time: nothing beyond the line can be pulled out of the stream
    assert!(tape.reads_after_lf == 0); // not one read after the line feed
    let (calls, len, bytes, fails) = unsafe { (FB_CALLS, FB_LEN, FB_BYTES, FB_FAILS) };
    if tape.hard_error_fired {
        assert!(calls == 0);
        assert!(matches!(r, Err(FrameError::Io { .. }))); // I/O failures surface as an I/O error
        assert!(tape.pos <= line_len);
    } else {
        assert!(tape.pos == line_len); // consumed exactly the line
        assert!(calls == 1 && len == line_len); // decoded exactly once, exactly the line
        let j: usize = kani::any();
        kani::assume(j < line_len && j < TAPE);
        assert!(bytes[j] == tape.data[j]);
        assert!(r.is_err() == fails); // the result is the decoder's result
    }
    core::mem::forget(r);
    (tape.hard_error_fired, line_len, tape.len, tape.calls, tape.pos, tape.lf_delivered)
}

#[kani::proof]
#[kani::unwind(8)]
#[kani::stub(Frame::from_bytes, stub_from_bytes)]
fn c15_read_one_line_tape4_hard_errors() {
    let (hard, line_len, len, _calls, pos, lf) = read_consumes_exactly_one_line(4, false);
    kani::cover!(!hard && line_len == 2 && len == 4, "cov_trailing_bytes_stay");
    kani::cover!(hard && pos == 1, "cov_hard_error_mid_line");
    kani::cover!(!hard && len == 4 && line_len == 4 && !lf, "cov_eof_without_lf");
}

#[kani::proof]
#[kani::unwind(6)]
#[kani::stub(Frame::from_bytes, stub_from_bytes)]
fn c15_read_one_line_tape2_interrupts() {
    let (hard, line_len, len, calls, _pos, _lf) = read_consumes_exactly_one_line(2, true);
    kani::cover!(!hard && line_len == 1 && len == 2 && calls >= 3, "cov_trailing_byte_stays_with_interrupts");
}

const SINK: usize = 20;
struct Sink {
    got: [u8; SINK],
    n: usize,
    calls: usize,
    accept: usize,        // bytes accepted per call (1..)
    interrupt_at: usize,  // the n-th write call reports Interrupted (0 = never)
    hard_error_at: usize, // the n-th write call fails hard (0 = never)
    hard_error_fired: bool,
}
impl Write for Sink {
    fn write(&mut self, buf: &[u8]) -> io::Result<usize> {
        self.calls += 1;
        if self.calls == self.hard_error_at {
            self.hard_error_fired = true;
            return Err(io::Error::from(io::ErrorKind::BrokenPipe));
        }
        if self.calls == self.interrupt_at {
            return Err(io::Error::from(io::ErrorKind::Interrupted));
        }
        let k = if buf.len() < self.accept { buf.len() } else { self.accept };
        let mut i = 0;
        while i < k {
            if self.n < SINK {
                self.got[self.n] = buf[i];
            }
            self.n += 1;
            i += 1;
        }
        Ok(k)
    }
    fn flush(&mut self) -> io::Result<()> {
        Ok(())
    }
}

/// C15 write side, BOUNDED: a frame with one data byte (15 characters with CRLF), a sink that accepts `accept` bytes
/// per call (4, 7 or 15), one Interrupted result and a hard error at arbitrary call indices.
fn write_delivers_whole_frame(accept: usize) {
    let addr: u16 = kani::any();
    let ty: u8 = kani::any();
    let byte: [u8; 1] = kani::any();
    let data = match Data::try_new(&byte[..]) {
        Ok(d) => d,
        Err(e) => {
            core::mem::forget(e);
            panic!("try_new")
        }
    };
    let f = Frame::new(Address(addr), MsgType(ty), data);
    let mut sink = Sink { got: [0; SINK], n: 0, calls: 0, accept, interrupt_at: kani::any(), hard_error_at: kani::any(), hard_error_fired: false };
    kani::assume(sink.interrupt_at <= 5 && sink.hard_error_at <= 5);
    let r = f.write(&mut sink);
    let want = f.to_bytes_with_newline();
    assert!(want.len() == 15);
    if sink.hard_error_fired {
        assert!(matches!(r, Err(FrameError::Io { .. })));
        assert!(sink.n < 15);
    } else {
        assert!(r.is_ok());
        assert!(sink.n == 15); // the whole frame, nothing more
    }
    // whatever was delivered is a prefix of the encoding, in order
    let i: usize = kani::any();
    kani::assume(i < sink.n && i < 15);
    assert!(sink.got[i] == want[i]);
    kani::cover!(!sink.hard_error_fired && sink.calls >= 3, "cov_short_writes");
    kani::cover!(sink.hard_error_fired && sink.n > 0, "cov_hard_error_after_partial_write");
    core::mem::forget(r);
}
#[kani::proof]
#[kani::unwind(18)]
fn c15_write_delivers_whole_frame_accept4() {
    write_delivers_whole_frame(4);
}
#[kani::proof]
#[kani::unwind(18)]
fn c15_write_delivers_whole_frame_accept7() {
    write_delivers_whole_frame(7);
}
