// Overlaid as a child module of flipdot_core::frame.
//  * discharges the two contracts the Verus proof of frame.rs uses without seeing the bodies:
//      checksum  (E-rw-6): #[kani::requires/ensures] attached by the overlay, proof_for_contract below
//      parse_hex (E-rw-5): every 2-character / 4-character hex string (full domain of the two instantiations)
//  * checks the three capacity self-checks (assert_eq! on Vec::capacity, dropped from the Verus text, E-drop-2)
//    on the real code at fixed data lengths (bounded stand-in).
#![allow(dead_code, unused_imports, unused_variables, unused_results)]
use super::*;

pub(crate) const CHECKSUM_MAX: usize = 259; // 4 header bytes + 255 data bytes: Verus proves len <= 259 at both call sites

/// executable transcription of the Verus spec function lrc()
pub(crate) fn spec_lrc(bytes: &[u8]) -> u8 {
    let mut acc: u8 = 0;
    let mut i = 0;
    while i < bytes.len() {
        acc = acc.wrapping_sub(bytes[i]);
        i += 1;
    }
    acc
}

#[kani::proof_for_contract(checksum)]
#[kani::unwind(261)]
fn checksum_contract() {
    let arr: [u8; CHECKSUM_MAX] = kani::any();
    let n: usize = kani::any();
    kani::assume(n <= CHECKSUM_MAX);
    let _ = checksum(&arr[..n]);
}

fn is_hex(c: u8) -> bool {
    (48 <= c && c <= 57) || (65 <= c && c <= 70) || (97 <= c && c <= 102)
}
fn hex_val(c: u8) -> u8 {
    if 48 <= c && c <= 57 {
        c - 48
    } else if 65 <= c && c <= 70 {
        c - 55
    } else {
        c - 87
    }
}

/// parse_hex::<u8> on every string of two hex digits (either case): total, and equal to the spec value.
#[kani::proof]
#[kani::unwind(6)]
fn parse_hex_u8_contract() {
    let b: [u8; 2] = kani::any();
    kani::assume(is_hex(b[0]) && is_hex(b[1]));
    let r: u8 = parse_hex::<u8>(&b);
    assert!(r == hex_val(b[0]) * 16 + hex_val(b[1]));
    kani::cover!(b[0] == b'f' && b[1] == b'F', "cov_mixed_case");
    kani::cover!(r == 0, "cov_zero");
}

/// parse_hex::<u16> on every string of four hex digits.
#[kani::proof]
#[kani::unwind(8)]
fn parse_hex_u16_contract() {
    let b: [u8; 4] = kani::any();
    kani::assume(is_hex(b[0]) && is_hex(b[1]) && is_hex(b[2]) && is_hex(b[3]));
    let r: u16 = parse_hex::<u16>(&b);
    let hi = u16::from(hex_val(b[0])) * 16 + u16::from(hex_val(b[1]));
    let lo = u16::from(hex_val(b[2])) * 16 + u16::from(hex_val(b[3]));
    assert!(r == hi * 256 + lo);
    kani::cover!(r == 0xFFFF, "cov_ffff");
    kani::cover!(b[0] == b'a' && b[3] == b'A', "cov_mixed_case");
}

fn hex_digit(n: u8) -> u8 {
    if n < 10 {
        48 + n
    } else {
        55 + n
    }
}

/// Bounded stand-in for E-drop-2: the capacity self-checks in payload / to_bytes / to_bytes_with_newline do not
/// fire, and the output equals the executable spec, at a fixed data length with symbolic contents.
fn capacity_asserts_at<const N: usize>() {
    let addr: u16 = kani::any();
    let ty: u8 = kani::any();
    let bytes: [u8; N] = kani::any();
    let data = match Data::try_new(&bytes[..]) {
        Ok(d) => d,
        Err(e) => {
            core::mem::forget(e); // never drop an error value in a harness: its drop glue drags in every dyn Error
            panic!("try_new rejected a short block")
        }
    };
    let f = Frame::new(Address(addr), MsgType(ty), data);
    let out = f.to_bytes_with_newline();
    assert!(out.len() == 11 + 2 * N + 2);
    assert!(out[0] == b':');
    assert!(out[1] == hex_digit((N as u8) >> 4) && out[2] == hex_digit((N as u8) & 0x0F));
    assert!(out[3] == hex_digit((addr >> 12) as u8) && out[6] == hex_digit((addr & 0x0F) as u8));
    assert!(out[7] == hex_digit(ty >> 4) && out[8] == hex_digit(ty & 0x0F));
    if N > 0 {
        assert!(out[9] == hex_digit(bytes[0] >> 4) && out[10] == hex_digit(bytes[0] & 0x0F));
    }
    assert!(out[out.len() - 2] == b'\r' && out[out.len() - 1] == b'\n');
    kani::cover!(out[out.len() - 3] == b'F', "cov_checksum_digit_f");
}

#[kani::proof]
#[kani::unwind(20)]
fn frame_capacity_asserts_len0() {
    capacity_asserts_at::<0>();
}
#[kani::proof]
#[kani::unwind(20)]
fn frame_capacity_asserts_len1() {
    capacity_asserts_at::<1>();
}
#[kani::proof]
#[kani::unwind(24)]
fn frame_capacity_asserts_len2() {
    capacity_asserts_at::<2>();
}
#[kani::proof]
#[kani::unwind(60)]
fn frame_capacity_asserts_len16() {
    capacity_asserts_at::<16>();
}

/// Bounded stand-in for E-rw-4: chunks(2).map(parse_hex::<u8>).collect() on a hex string of exactly 3 pairs.
#[kani::proof]
#[kani::unwind(8)]
fn chunks_map_collect_pipeline() {
    let s: [u8; 6] = kani::any();
    kani::assume(is_hex(s[0]) && is_hex(s[1]) && is_hex(s[2]) && is_hex(s[3]) && is_hex(s[4]) && is_hex(s[5]));
    let v = s[..].chunks(2).map(parse_hex::<u8>).collect::<Vec<_>>();
    assert!(v.len() == 3);
    assert!(v[0] == hex_val(s[0]) * 16 + hex_val(s[1]));
    assert!(v[1] == hex_val(s[2]) * 16 + hex_val(s[3]));
    assert!(v[2] == hex_val(s[4]) * 16 + hex_val(s[5]));
    kani::cover!(v[2] == 0xAB, "cov_ab");
}
