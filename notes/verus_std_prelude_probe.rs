#![feature(sized_hierarchy)]
#![feature(panic_internals)]
#![feature(allocator_api)]
#![allow(unused_imports)]
use vstd::prelude::*;
use std::borrow::Cow;
use std::ops::Deref;
verus! {

#[verifier::external_type_specification]
pub struct ExAssertKind(core::panicking::AssertKind);

pub assume_specification<T, U> [core::panicking::assert_failed] (_0: core::panicking::AssertKind, _1: &T, _2: &U, _3: std::option::Option<std::fmt::Arguments<'_>>) -> !
    where
    T: std::marker::MetaSized + std::fmt::Debug + ?Sized,
    U: std::marker::MetaSized + std::fmt::Debug + ?Sized,
    requires false;

pub uninterp spec fn spec_capacity<T, A: std::alloc::Allocator>(v: &Vec<T, A>) -> usize;

pub assume_specification<T, A> [std::vec::Vec::<T, A>::capacity] (v: &std::vec::Vec<T, A>) -> (r: usize)
    where A: std::alloc::Allocator,
    ensures r == spec_capacity(v);

pub uninterp spec fn cow_deref<'a, 'b, B: ?Sized + ToOwned>(c: &'b Cow<'a, B>) -> &'b B;

pub assume_specification<'a, 'b, B> [ <Cow<'a, B> as Deref>::deref ] (c: &'b Cow<'a, B>) -> (r: &'b B)
    where B: ToOwned + ?Sized
    ensures r == cow_deref(c);

pub broadcast axiom fn axiom_cow_u8_view<'a>(c: &Cow<'a, [u8]>)
    ensures #[trigger] cow_deref(c)@ == c@;

} // verus!
