//! Native oracle for the controller (C09 / C10 / C11): the REAL `Sign`, driven only through its public API, against
//! the same protocol monitor the Kani proofs use (`/verif/kani/sign_monitor.rs`, included textually). Replies are
//! random but biased towards the replies that let a conversation continue, so that deep paths (retries, the full reset
//! dance, multi-page transfers, pages of 64 KiB) are reached. A monitor assertion that fires is a concrete failing
//! reply script. Bounded; never counted as proved.
#![allow(dead_code, unused_imports, unused_variables, static_mut_refs)]
use crate::{Cex, Rng};
use flipdot::core::{Address, ChunkCount, Data, Frame, Message, MsgType, Offset, Operation, Page, PageFlipStyle, PageId, SignBus, SignType, State};
use flipdot::{Sign, SignError};
use std::cell::RefCell;
use std::error::Error;
use std::panic::{catch_unwind, AssertUnwindSafe};
use std::rc::Rc;

/// shim for the two Kani primitives the monitor uses
mod kani {
    use std::cell::RefCell;
    thread_local! { pub static SEED: RefCell<u64> = RefCell::new(0x9E3779B97F4A7C15); }
    fn next() -> u64 {
        SEED.with(|s| {
            let mut x = *s.borrow();
            x ^= x << 13;
            x ^= x >> 7;
            x ^= x << 17;
            *s.borrow_mut() = x;
            x
        })
    }
    pub trait Arb {
        fn arb() -> Self;
    }
    thread_local! { pub static OWN: RefCell<u16> = RefCell::new(0); }
    impl Arb for u8 {
        // any_reply() draws the reply kind as a u8 and maps 5..=255 to "bus error": keep the kinds balanced
        fn arb() -> u8 { (next() % 7) as u8 }
    }
    impl Arb for u16 {
        // addresses: the controller's own address half of the time, a foreign one otherwise
        fn arb() -> u16 { let x = next(); if x & 1 == 0 { OWN.with(|o| *o.borrow()) } else { (x >> 8) as u16 } }
    }
    thread_local! { static TOGGLE: RefCell<bool> = RefCell::new(false); }
    impl Arb for usize {
        // any_reply() draws a state index (< 13) and then an operation index (< 6), in this order
        fn arb() -> usize {
            let second = TOGGLE.with(|t| { let v = *t.borrow(); *t.borrow_mut() = !v; v });
            (next() % if second { 6 } else { 13 }) as usize
        }
    }
    pub fn any<T: Arb>() -> T {
        T::arb()
    }
    pub struct AssumeFailed;
    pub fn assume(c: bool) {
        if !c {
            std::panic::panic_any(AssumeFailed);
        }
    }
}

include!("/verif/kani/sign_monitor.rs");
mod monitor_native_begin {}

    /// a reply that lets the conversation continue from the current phase (`coin` picks among the alternatives)
    pub fn continuing_reply(b: &Bus, coin: u8) -> Rep {
        let own = b.own;
        match b.phase {
            Phase::IfNeededHello => match coin % 4 { 0 => Rep::Report(own, S_CFG_RECV), 1 => Rep::Report(own, S_SHOWING), 2 => Rep::Report(own, S_UNCONF), _ => Rep::Report(own, S_PIX_FAIL) },
            Phase::Hello0 => match coin % 3 { 0 => Rep::Report(own, S_UNCONF), 1 => Rep::Report(own, S_READY_RESET), _ => Rep::Report(own, S_PIX_RECV) },
            Phase::StartReset => Rep::Ack(own, O_START_RESET),
            Phase::HelloReadyReset => Rep::Report(own, S_READY_RESET),
            Phase::FinishReset => Rep::Ack(own, O_FINISH_RESET),
            Phase::HelloUnconf => Rep::Report(own, S_UNCONF),
            Phase::ReqRecv => Rep::Ack(own, b.recv_op),
            Phase::Data | Phase::Count | Phase::PixelsComplete | Phase::Goodbye => Rep::None,
            Phase::QueryResult => if coin % 3 == 0 { Rep::Report(own, b.failure) } else { Rep::Report(own, b.success) },
            Phase::QueryStyle => if coin % 2 == 0 { Rep::Report(own, S_SHOWING) } else { Rep::Report(own, S_LOADED) },
            Phase::SwitchQuery => match coin % 5 { 0 => Rep::Report(own, b.sw_target), 1 | 2 => Rep::Report(own, b.sw_trigger), 3 => Rep::Report(own, S_LOAD_PROG), _ => Rep::Report(own, S_SHOW_PROG) },
            Phase::SwitchReq => Rep::Ack(own, b.sw_op),
            Phase::Done => Rep::None,
        }
    }

    pub struct NativeBus {
        pub mon: Bus,
        pub seed: u64,
        pub p_continue: u64, // out of 100
        pub log: Vec<String>,
        pub switch_budget: usize,
    }
    impl NativeBus {
        fn next(&mut self) -> u64 {
            self.seed ^= self.seed << 13;
            self.seed ^= self.seed >> 7;
            self.seed ^= self.seed << 17;
            self.seed
        }
    }
    impl SignBus for NativeBus {
        fn process_message<'a>(&mut self, message: Message<'_>) -> Result<Option<Message<'a>>, Box<dyn std::error::Error + Send + Sync>> {
            let coin = self.next();
            let mut r = if coin % 100 < self.p_continue { continuing_reply(&self.mon, (coin >> 8) as u8) } else { any_reply() };
            if self.mon.kind == Kind::Switch && self.mon.n_msgs >= self.switch_budget {
                r = Rep::Report(self.mon.own, self.mon.sw_target); // let the polling loop end
                if self.mon.phase == Phase::SwitchReq { r = Rep::None; }
            }
            if self.log.len() < 60 {
                self.log.push(format!("{} -> {}", short(&message), rep_str(r)));
            }
            let r = self.mon.exchange_with(&message, r);
            match reply_value(r) {
                // a bus error is a bus error whatever its concrete type: rotate through the ones real buses produce
                Err(e) => Err(match coin % 5 {
                    0 => Box::new(std::io::Error::from(std::io::ErrorKind::TimedOut)) as Box<dyn Error + Send + Sync>,
                    1 => Box::new(std::io::Error::new(std::io::ErrorKind::Other, "bus")),
                    2 => Box::new(flipdot::core::FrameError::Io { source: std::io::Error::from(std::io::ErrorKind::TimedOut) }),
                    3 => "bus failure".into(),
                    _ => e,
                }),
                ok => ok,
            }
        }
    }
    fn short(m: &Message<'_>) -> String {
        match m {
            Message::SendData(o, d) => format!("SendData({},{}B)", o.0, d.get().len()),
            other => format!("{:?}", other),
        }
    }
    pub fn rep_str(r: Rep) -> String {
        match r {
            Rep::None => "None".into(),
            Rep::Report(a, s) => format!("Report({:04X},{:?})", a, STATES[s]),
            Rep::Ack(a, o) => format!("Ack({:04X},{:?})", a, OPS[o]),
            Rep::OtherMsg(a) => format!("Goodbye({:04X})", a),
            Rep::UnknownFrame(a, t) => format!("Unknown({:04X},{:02X})", a, t),
            Rep::Err => "BusError".into(),
        }
    }
    pub fn outcome_of<T>(r: &Result<T, SignError>) -> Outcome {
        match r {
            Ok(_) => Outcome::Ok,
            Err(SignError::UnexpectedResponse { .. }) => Outcome::Unexpected,
            Err(SignError::Bus { .. }) => Outcome::BusError,
            #[allow(unreachable_patterns)]
            Err(_) => Outcome::Pending,
        }
    }
    /// the postconditions the Kani harnesses assert after an operation (C10 outcome, C11 log invariants)
    pub fn post(b: &Bus, got: Outcome, want_transfer_success: bool) -> Option<String> {
        if b.phase != Phase::Done { return Some(format!("the operation returned while the protocol prescribes more messages (after {} messages)", b.n_msgs)); }
        let want = if b.outcome == Outcome::OkAutomatic { Outcome::Ok } else { b.outcome };
        if got != want { return Some(format!("outcome differs from the prescribed one ({})", match b.outcome { Outcome::Ok | Outcome::OkAutomatic => "success", Outcome::Unexpected => "UnexpectedResponse", Outcome::BusError => "Bus error", Outcome::Pending => "pending" })); }
        if b.sent_after_dead { return Some("a message was sent after a bus error / a never-allowed reply (fail-stop)".into()); }
        if b.foreign_address_sent { return Some("an addressed message carried a foreign address".into()); }
        if b.recv_requests > 3 { return Some("more than three transfer attempts".into()); }
        if b.retry_without_failed_report { return Some("a retry that does not directly follow an own 'failed' report".into()); }
        if want_transfer_success && got == Outcome::Ok && b.recv_requests > 0 && !b.last_query_reply_own_success { return Some("success without an own 'received' report answering the last state query".into()); }
        None
    }

const SIZES: [(u32, u32); 7] = [(2, 8), (30, 7), (160, 16), (90, 7), (4092, 8), (65516, 8), (65532, 8)]; // 16, 48, 336, 96, 4096, 65520, 65536 bytes

pub fn search_controller(rng: &mut Rng, trials: usize) -> Option<Cex> {
    let types = crate::refspec::ALL_TYPES;
    for trial in 0..trials {
        let own: u16 = [1u16, 0x7F, 0x0100, 0xFFFF, rng.next() as u16][trial % 5];
        let t = types[rng.below(11) as usize];
        let opk = rng.below(12);
        let p_continue = [97u64, 90, 75, 100][rng.below(4) as usize];
        // pages for send_pages
        let big = trial % 97 == 0;
        let n_pages = if opk >= 6 { rng.below(4) as usize } else { 0 };
        let mut pages: Vec<Page<'static>> = vec![];
        for i in 0..n_pages.min(3) {
            let (w, h) = if big { SIZES[4 + rng.below(3) as usize] } else { SIZES[rng.below(4) as usize] };
            let mut p = Page::new(PageId(if trial % 3 == 0 { 7 } else { i as u8 }), w, h); // every third list: all pages carry the same id
            p.set_pixel(rng.next() as u32 % w, rng.next() as u32 % h, true);
            pages.push(p);
        }
        let make_mon = |opk: u64| -> (Bus, &'static str) {
            let (kind, phase) = match opk {
                0 | 1 => (Kind::Configure, Phase::Hello0),
                2 => (Kind::Configure, Phase::IfNeededHello),
                3 => (Kind::ShutDown, Phase::Goodbye),
                4 | 5 => (Kind::Switch, Phase::SwitchQuery),
                _ => (Kind::SendPages, Phase::ReqRecv),
            };
            let mut mon = Bus::new(own, kind, phase);
            mon.max_msgs = usize::MAX;
            mon.max_polls = usize::MAX;
            let opname;
            match opk {
                0 | 1 | 2 => {
                    mon.n_items = 1;
                    mon.items[0] = (core::ptr::null(), 16);
                    let b = t.to_bytes();
                    for i in 0..16 { mon.config[i] = b[i]; }
                    opname = if opk == 2 { "configure_if_needed" } else { "configure" };
                }
                3 => opname = "shut_down",
                4 => { mon.sw_target = S_SHOWN; mon.sw_trigger = S_LOADED; mon.sw_op = O_SHOW; opname = "show_loaded_page"; }
                5 => { mon.sw_target = S_LOADED; mon.sw_trigger = S_SHOWN; mon.sw_op = O_LOAD_NEXT; opname = "load_next_page"; }
                _ => {
                    mon.recv_op = O_RECV_PIX; mon.success = S_PIX_RECV; mon.failure = S_PIX_FAIL;
                    mon.n_items = pages.len();
                    for (i, p) in pages.iter().enumerate() { mon.items[i] = (p.as_bytes().as_ptr(), p.as_bytes().len()); }
                    opname = "send_pages";
                }
            }
            (mon, opname)
        };
        kani::OWN.with(|o| *o.borrow_mut() = own);
        let (mon, mut opname) = make_mon(opk);
        let bus = Rc::new(RefCell::new(NativeBus { mon, seed: rng.next() | 1, p_continue, log: vec![], switch_budget: 12 }));
        let dynbus: Rc<RefCell<dyn SignBus>> = bus.clone();
        let sign = Sign::new(dynbus, Address(own), t);
        let run_op = |opk: u64| -> Result<Option<String>, ()> {
            catch_unwind(AssertUnwindSafe(|| {
                match opk {
                    0 | 1 => { let r = sign.configure(); let o = outcome_of(&r); post(&bus.borrow().mon, o, true) }
                    2 => { let r = sign.configure_if_needed(); let o = outcome_of(&r); post(&bus.borrow().mon, o, true) }
                    3 => { let r = sign.shut_down(); let o = outcome_of(&r); post(&bus.borrow().mon, o, false) }
                    4 => { let r = sign.show_loaded_page(); let o = outcome_of(&r); post(&bus.borrow().mon, o, false) }
                    5 => { let r = sign.load_next_page(); let o = outcome_of(&r); post(&bus.borrow().mon, o, false) }
                    _ => {
                        let r = sign.send_pages(&pages);
                        let o = outcome_of(&r);
                        let b = bus.borrow();
                        if let (Ok(style), Outcome::OkAutomatic | Outcome::Ok) = (&r, b.mon.outcome) {
                            let want = if b.mon.outcome == Outcome::OkAutomatic { PageFlipStyle::Automatic } else { PageFlipStyle::Manual };
                            if *style != want { return Some(format!("flip style {:?} reported, the protocol prescribes {:?}", style, want)); }
                        }
                        post(&b.mon, o, false)
                    }
                }
            })).map_err(|_| ())
        };
        let mut res = run_op(opk);
        let mut first_script = String::new();
        if let Ok(None) = res {
            // A SECOND operation on the SAME controller object, judged by a fresh monitor: the controller keeps no
            // protocol state between operations, so what it does now may depend only on the replies it gets now.
            let opk2 = [4u64, 5, 3, 0, 2, 6, 4, 5][rng.below(8) as usize];
            if trial % 2 == 0 {
                let (mon2, name2) = make_mon(opk2);
                {
                    let mut b = bus.borrow_mut();
                    first_script = format!("{} [{}] then ", opname, b.log.join("; "));
                    b.mon = mon2;
                    b.log.clear();
                    b.switch_budget = 12;
                }
                opname = name2;
                res = run_op(opk2);
            }
        }
        let describe = |b: &NativeBus| format!("{}{} own={:04X} type={:?} pages={:?} script=[{}]", first_script, opname, own, t, pages.iter().map(|p| p.as_bytes().len()).collect::<Vec<_>>(), b.log.join("; "));
        match res {
            Ok(None) => {}
            Ok(Some(msg)) => { let b = bus.borrow(); return Some(Cex { domain: "controller", input: describe(&b), expected: "the documented protocol (monitor of C09/C10/C11)".into(), actual: msg }); }
            Err(()) => {
                // a monitor assertion fired inside the bus call (the RefCell may still be borrowed)
                let text = match bus.try_borrow() { Ok(b) => describe(&b), Err(_) => format!("{} own={:04X} type={:?} (script unavailable: bus borrowed at the point of failure)", opname, own, t) };
                return Some(Cex { domain: "controller", input: text, expected: "every outgoing message equals what the protocol prescribes".into(), actual: "the protocol monitor rejected an outgoing message (or the controller panicked)".into() });
            }
        }
    }
    None
}
