use flipdot_core::*;
use std::panic::{catch_unwind, AssertUnwindSafe};

mod refspec;
use refspec::*;
mod io_domains;
mod controller;

pub struct Rng(u64);
impl Rng {
    pub fn next(&mut self) -> u64 {
        self.0 ^= self.0 << 13;
        self.0 ^= self.0 >> 7;
        self.0 ^= self.0 << 17;
        self.0
    }
    pub fn below(&mut self, n: u64) -> u64 {
        self.next() % n
    }
}

pub fn hex(b: &[u8]) -> String {
    b.iter().map(|x| format!("{:02x}", x)).collect()
}
fn unhex(s: &str) -> Vec<u8> {
    (0..s.len() / 2).map(|i| u8::from_str_radix(&s[2 * i..2 * i + 2], 16).unwrap()).collect()
}

/// A found counterexample: domain, input (replayable), what was expected / what the real code did.
pub struct Cex {
    pub domain: &'static str,
    pub input: String,
    pub expected: String,
    pub actual: String,
}
fn report(c: &Cex) {
    let e = |s: &str| {
        let mut o = String::new();
        for ch in s.chars() {
            match ch {
                '\\' => o.push_str("\\\\"),
                '"' => o.push_str("\\\""),
                '\n' => o.push_str("\\n"),
                c if (c as u32) < 0x20 => o.push_str(&format!("\\u{:04x}", c as u32)),
                c => o.push(c),
            }
        }
        o
    };
    println!(
        "{{\"found\":true,\"domain\":\"{}\",\"input\":\"{}\",\"expected\":\"{}\",\"actual\":\"{}\"}}",
        c.domain,
        e(&c.input),
        e(&c.expected),
        e(&c.actual)
    );
}

// ------------------------------------------------------------------ frame encode
fn check_encode(addr: u16, ty: u8, data: &[u8]) -> Option<Cex> {
    let input = format!("{:04x}:{:02x}:{}", addr, ty, hex(data));
    let fv = FrameV { addr, typ: ty, data: data.to_vec() };
    let want = ref_enc(&fv);
    let mut want_nl = want.clone();
    want_nl.extend_from_slice(b"\r\n");
    let r = catch_unwind(AssertUnwindSafe(|| {
        let f = Frame::new(Address(addr), MsgType(ty), Data::try_new(data.to_vec()).expect("try_new rejected <= 255 bytes"));
        let a = f.to_bytes();
        let b = f.to_bytes_with_newline();
        let borrowed = Frame::new(Address(addr), MsgType(ty), Data::try_new(data).expect("try_new rejected <= 255 bytes")).to_bytes();
        let d1 = Frame::from_bytes(&a).map(|g| g == f);
        let d2 = Frame::from_bytes(&b).map(|g| g == f);
        (a, b, borrowed, format!("{:?}", d1), format!("{:?}", d2))
    }));
    match r {
        Err(_) => Some(Cex { domain: "frame-encode", input, expected: format!("encoding {}", String::from_utf8_lossy(&want)), actual: "panic".into() }),
        Ok((a, b, c, d1, d2)) => {
            if a != want || c != want {
                Some(Cex { domain: "frame-encode", input, expected: String::from_utf8_lossy(&want).into(), actual: String::from_utf8_lossy(&a).into() })
            } else if b != want_nl {
                Some(Cex { domain: "frame-encode", input, expected: format!("{:?}", want_nl), actual: format!("{:?}", b) })
            } else if d1 != "Ok(true)" || d2 != "Ok(true)" {
                Some(Cex { domain: "frame-encode", input, expected: "decode(encode(f)) == Ok(f), with and without CRLF".into(), actual: format!("{} / {}", d1, d2) })
            } else {
                None
            }
        }
    }
}

fn search_encode(rng: &mut Rng, budget: usize) -> Option<Cex> {
    let addrs = [0u16, 1, 2, 0x7F, 0xFF, 0x100, 0x101, 0x1234, 0x8000, 0xABCD, 0xFF00, 0xFFFF];
    let tys = [0u8, 1, 2, 3, 4, 5, 6, 7, 0x10, 0x7F, 0x80, 0xFF];
    let lens = [0usize, 1, 2, 3, 15, 16, 17, 127, 128, 250, 251, 252, 253, 254, 255];
    for &a in &addrs {
        for &t in &tys {
            for &n in &lens {
                for pat in 0..3 {
                    let data: Vec<u8> = (0..n).map(|i| match pat { 0 => 0, 1 => 0xFF, _ => (i * 37 + 11) as u8 }).collect();
                    if let Some(c) = check_encode(a, t, &data) {
                        return Some(c);
                    }
                }
            }
        }
    }
    for _ in 0..budget {
        let n = if rng.below(4) == 0 { 240 + rng.below(16) as usize } else { rng.below(40) as usize };
        let data: Vec<u8> = (0..n).map(|_| rng.next() as u8).collect();
        if let Some(c) = check_encode(rng.next() as u16, rng.next() as u8, &data) {
            return Some(c);
        }
    }
    // try_new must reject every longer block
    for n in [256usize, 257, 300, 1000] {
        if Data::try_new(vec![0u8; n]).is_ok() {
            return Some(Cex { domain: "frame-encode", input: format!("try_new(len {})", n), expected: "Err(DataTooLong)".into(), actual: "Ok".into() });
        }
    }
    None
}

// ------------------------------------------------------------------ frame decode
pub fn classify_result(r: std::thread::Result<Result<Frame<'_>, FrameError>>) -> String {
    match r {
        Err(_) => "panic".into(),
        Ok(Ok(f)) => format!("Ok({:04x},{:02x},{})", f.address().0, f.message_type().0, hex(f.data())),
        Ok(Err(FrameError::InvalidFrame { .. })) => "Invalid".into(),
        Ok(Err(FrameError::FrameDataMismatch { expected, actual, .. })) => format!("Mismatch({},{})", expected, actual),
        Ok(Err(FrameError::BadChecksum { expected, actual, .. })) => format!("BadChecksum({:02x},{:02x})", expected, actual),
        Ok(Err(FrameError::Io { .. })) => "Io".into(),
        Ok(Err(e)) => format!("OtherError({:?})", e),
    }
}
fn classify_real(b: &[u8]) -> String {
    classify_result(catch_unwind(AssertUnwindSafe(|| Frame::from_bytes(b))))
}
pub fn classify_ref(b: &[u8]) -> String {
    match ref_dec(b) {
        DecV::Ok(f) => format!("Ok({:04x},{:02x},{})", f.addr, f.typ, hex(&f.data)),
        DecV::Invalid => "Invalid".into(),
        DecV::Mismatch { declared, actual } => format!("Mismatch({},{})", declared, actual),
        DecV::BadChecksum { provided, computed } => format!("BadChecksum({:02x},{:02x})", provided, computed),
    }
}
fn check_decode(b: &[u8]) -> Option<Cex> {
    let (r, w) = (classify_real(b), classify_ref(b));
    if r != w {
        Some(Cex { domain: "frame-decode", input: hex(b), expected: w, actual: r })
    } else {
        None
    }
}

/// Decoding is a function of its argument: whatever was decoded (and rejected) before on this thread, `b` decodes as
/// the reference says.  Input form for replay: hex(previous) '>' hex(b).
fn check_decode_after(prev: &[u8], b: &[u8]) -> Option<Cex> {
    let _ = catch_unwind(AssertUnwindSafe(|| Frame::from_bytes(prev).map(|_| ())));
    let (r, w) = (classify_real(b), classify_ref(b));
    if r != w {
        Some(Cex { domain: "frame-decode", input: format!("{}>{}", hex(prev), hex(b)), expected: format!("{} (after decoding the first string)", w), actual: r })
    } else {
        None
    }
}

fn search_decode(rng: &mut Rng, budget: usize) -> Option<Cex> {
    // no hidden state: a rejected string of each class, then valid frames (and the other way round)
    {
        let good: [&[u8]; 3] = [b":0000000000", b":01007F02FF7F\r\n", b":1012340000112233445566778899AABBCCDDEEFF3A"];
        let prevs: [&[u8]; 8] = [b":00007F02FF", b":0000000001", b":0100000000", b"garbage", b":01007F02FF7F\r\n\r\n", b":0000000000", b"", b":02000000AA"];
        for p in prevs { for g in good { if let Some(c) = check_decode_after(p, g) { return Some(c); } } }
        for p in prevs { for q in prevs { if let Some(c) = check_decode_after(p, q) { return Some(c); } } }
    }
    // structural alphabet, exhaustive short strings around the valid empty-data skeleton
    let alpha: [u8; 12] = [b':', b'0', b'1', b'9', b'a', b'F', b'f', b'G', b'\r', b'\n', 0, 0xFF];
    for len in 0..=4usize {
        let mut idx = vec![0usize; len];
        loop {
            let s: Vec<u8> = idx.iter().map(|&i| alpha[i]).collect();
            for base in [&b""[..], &b":0000000000"[..], &b":00000000"[..], &b":0100000000"[..]] {
                let mut t = base.to_vec();
                t.extend_from_slice(&s);
                if let Some(c) = check_decode(&t) { return Some(c); }
                let mut u = s.clone();
                u.extend_from_slice(base);
                if let Some(c) = check_decode(&u) { return Some(c); }
            }
            let mut k = 0;
            while k < len {
                idx[k] += 1;
                if idx[k] < alpha.len() { break; }
                idx[k] = 0;
                k += 1;
            }
            if k == len { break; }
        }
    }
    // mutations of valid frames
    let mut seeds: Vec<FrameV> = vec![];
    for &(a, t, n) in &[(0u16, 0u8, 0usize), (0x7F, 2, 1), (0x1234, 0, 16), (0xFFFF, 0xFF, 3), (0x0100, 1, 0), (0xAB00, 4, 1), (2, 1, 2), (0x0600, 0xF9 - 6, 6), (0x00FF, 0, 255), (0xFF00, 0, 254)] {
        seeds.push(FrameV { addr: a, typ: t, data: (0..n).map(|i| (i * 29 + 3) as u8).collect() });
    }
    for _ in 0..20 {
        let n = rng.below(24) as usize;
        seeds.push(FrameV { addr: rng.next() as u16, typ: rng.next() as u8, data: (0..n).map(|_| rng.next() as u8).collect() });
    }
    for f in &seeds {
        for nl in [false, true] {
            let mut w = ref_enc(f);
            if nl { w.extend_from_slice(b"\r\n"); }
            if let Some(c) = check_decode(&w) { return Some(c); }
            let lower: Vec<u8> = w.iter().map(|c| c.to_ascii_lowercase()).collect();
            if let Some(c) = check_decode(&lower) { return Some(c); }
            let positions: Vec<usize> = if w.len() <= 60 { (0..w.len()).collect() } else { (0..12).chain(w.len() - 8..w.len()).collect() };
            for &i in &positions {
                for c2 in [b'0', b'1', b'8', b'F', b'a', b'f', b':', b'\r', b'\n', b'G', 0u8, 0xFF, w[i] ^ 1, w[i] ^ 0x20] {
                    let mut m = w.clone();
                    m[i] = c2;
                    if let Some(c) = check_decode(&m) { return Some(c); }
                }
                let mut d = w.clone(); d.remove(i);
                if let Some(c) = check_decode(&d) { return Some(c); }
                let mut u = w.clone(); u.insert(i, w[i]);
                if let Some(c) = check_decode(&u) { return Some(c); }
                if i + 1 < w.len() { let mut s = w.clone(); s.swap(i, i + 1); if let Some(c) = check_decode(&s) { return Some(c); } }
                if let Some(c) = check_decode(&w[..i]) { return Some(c); }
                // prefix / suffix garbage, doubled terminator, second frame
                for g in [&b"\0"[..], &b" "[..], &b":"[..], &b"\r\n"[..], &b"\n"[..], &b"\r"[..], &b"00"[..]] {
                    let mut p = g.to_vec(); p.extend_from_slice(&w);
                    if let Some(c) = check_decode(&p) { return Some(c); }
                    let mut q = w.clone(); q.extend_from_slice(g);
                    if let Some(c) = check_decode(&q) { return Some(c); }
                }
            }
        }
    }
    // long strings: more data pairs than the length byte can declare; non-ASCII digits
    for pairs in [255usize, 256, 257, 300, 511, 512] {
        for declared in [0xFFu8, 0x00, (pairs % 256) as u8, 0x2C] {
            let mut s = format!(":{:02X}0000", declared).into_bytes();
            s.extend_from_slice(b"00");
            for _ in 0..pairs { s.extend_from_slice(b"00"); }
            let sum: u32 = declared as u32;
            s.extend_from_slice(format!("{:02X}", (0u8).wrapping_sub(sum as u8)).as_bytes());
            if let Some(c) = check_decode(&s) { return Some(c); }
            s.extend_from_slice(b"\r\n");
            if let Some(c) = check_decode(&s) { return Some(c); }
        }
    }
    for bad in [&b":\xD9\xA0\xD9\xA0002BA92C"[..], &b":00002BA92\xEF\xBC\x92"[..], &b":000000000\xd9\xa0"[..]] {
        if let Some(c) = check_decode(bad) { return Some(c); }
    }
    for _ in 0..budget {
        let n = rng.below(40) as usize;
        let s: Vec<u8> = (0..n).map(|_| if rng.below(3) == 0 { rng.next() as u8 } else { alpha[rng.below(12) as usize] }).collect();
        if let Some(c) = check_decode(&s) { return Some(c); }
    }
    None
}

// ------------------------------------------------------------------ pages
fn check_page(id: u8, w: u32, h: u32) -> Option<Cex> {
    let input = format!("page {}x{} id {}", w, h, id);
    let bpc = ((h + 7) / 8) as usize;
    let data_len = 4 + w as usize * bpc;
    let total = (data_len + 15) / 16 * 16;
    let r = catch_unwind(AssertUnwindSafe(|| {
        let p = Page::new(PageId(id), w, h);
        let b = p.as_bytes().to_vec();
        let mut want = vec![id, 0x10, 0, 0];
        want.resize(data_len, 0);
        want.resize(total, 0xFF);
        if b != want { return Some(format!("new(): bytes {}", hex(&b))); }
        if p.id() != PageId(id) || p.width() != w || p.height() != h { return Some("id/width/height".into()); }
        for len in [total.saturating_sub(16), total.saturating_sub(1), total, total + 1, total + 16, data_len] {
            let ok = Page::from_bytes(w, h, vec![0u8; len]).is_ok();
            if ok != (len == total) { return Some(format!("from_bytes(len {}) ok={}", len, ok)); }
        }
        match Page::from_bytes(w, h, &b[..]) { Ok(q) => { if q != p || q.as_bytes() != &b[..] { return Some("from_bytes(as_bytes) != page".into()); } } Err(e) => return Some(format!("from_bytes(as_bytes) = {:?}", e)) }
        None
    }));
    match r {
        Err(_) => return Some(Cex { domain: "page", input, expected: "no panic".into(), actual: "panic in new/from_bytes".into() }),
        Ok(Some(m)) => return Some(Cex { domain: "page", input, expected: format!("layout [id,10,0,0]+{} zero +pad to {}", data_len - 4, total), actual: m }),
        Ok(None) => {}
    }
    // pixel operations on a page over bytes with non-FF padding and non-standard header
    let mut base = vec![0u8; total];
    for (i, x) in base.iter_mut().enumerate() { *x = (i * 7 + 1) as u8; }
    let coords: Vec<(u32, u32)> = {
        let mut v = vec![];
        for x in [0u32, 1, w / 2, w.wrapping_sub(1)] { for y in [0u32, 1, 6, 7, 8, 9, h / 2, h.wrapping_sub(1)] { if x < w && y < h { v.push((x, y)); } } }
        v
    };
    for &(x, y) in &coords {
        for val in [true, false] {
            let r = catch_unwind(AssertUnwindSafe(|| {
                let mut p = Page::from_bytes(w, h, &base[..]).unwrap();
                p.set_pixel(x, y, val);
                let after = p.as_bytes().to_vec();
                let idx = 4 + x as usize * bpc + (y / 8) as usize;
                let mut want = base.clone();
                if val { want[idx] |= 1 << (y % 8); } else { want[idx] &= !(1 << (y % 8)); }
                if after != want { return Some(format!("set_pixel({},{},{}) changed bytes {} -> {}", x, y, val, hex(&base), hex(&after))); }
                if p.get_pixel(x, y) != val { return Some(format!("get_pixel({},{}) != {}", x, y, val)); }
                None
            }));
            match r {
                Err(_) => return Some(Cex { domain: "page", input: format!("{} set_pixel({},{},{})", input, x, y, val), expected: "in-bounds never panics".into(), actual: "panic".into() }),
                Ok(Some(m)) => return Some(Cex { domain: "page", input: input.clone(), expected: "exactly the addressed bit changes".into(), actual: m }),
                Ok(None) => {}
            }
        }
    }
    for val in [true, false] {
        let r = catch_unwind(AssertUnwindSafe(|| {
            let mut p = Page::from_bytes(w, h, &base[..]).unwrap();
            p.set_all_pixels(val);
            let after = p.as_bytes().to_vec();
            let mut want = base.clone();
            for b in want[4..data_len].iter_mut() { *b = if val { 0xFF } else { 0 }; }
            if after != want { Some(format!("set_all_pixels({}) {} -> {}", val, hex(&base), hex(&after))) } else { None }
        }));
        match r {
            Err(_) => return Some(Cex { domain: "page", input: format!("{} set_all_pixels({})", input, val), expected: "no panic".into(), actual: "panic".into() }),
            Ok(Some(m)) => return Some(Cex { domain: "page", input: input.clone(), expected: "data bytes filled; header and padding unchanged".into(), actual: m }),
            Ok(None) => {}
        }
    }
    // out of bounds must panic
    for (x, y) in [(w, 0u32), (0u32, h), (w, h), (w + 1, 0), (0, h + 1), (0, (h + 7) / 8 * 8), (0, ((h + 7) / 8 * 8).wrapping_sub(1)), (u32::MAX, 0), (0, u32::MAX)] {
        if x < w && y < h { continue; }
        let got = catch_unwind(AssertUnwindSafe(|| { let p = Page::from_bytes(w, h, &base[..]).unwrap(); p.get_pixel(x, y) }));
        let set = catch_unwind(AssertUnwindSafe(|| { let mut p = Page::from_bytes(w, h, &base[..]).unwrap(); p.set_pixel(x, y, true); }));
        if got.is_ok() || set.is_ok() {
            return Some(Cex { domain: "page", input: format!("{} coordinate ({},{})", input, x, y), expected: "panic (out of bounds)".into(), actual: "returned normally".into() });
        }
    }
    None
}

fn search_page(_rng: &mut Rng) -> Option<Cex> {
    let real = [(112u32, 16u32), (98, 16), (90, 7), (30, 10), (23, 10), (30, 7), (160, 16), (140, 16), (96, 8), (48, 16), (40, 12)];
    for &(w, h) in &real { if let Some(c) = check_page(3, w, h) { return Some(c); } }
    for w in 0..=29u32 { for h in 0..=33u32 { if let Some(c) = check_page((w * 7 + h) as u8, w, h) { return Some(c); } } }
    for &(w, h) in &[(1000u32, 1u32), (1, 1000), (4095, 16), (255, 255)] { if let Some(c) = check_page(255, w, h) { return Some(c); } }
    None
}

// ------------------------------------------------------------------ messages
fn search_message(_rng: &mut Rng) -> Option<Cex> {
    let arr: Vec<u8> = (0..255).map(|i| (i * 3 + 1) as u8).collect();
    for ty in 0..=255u8 {
        for b0 in 0..=255u8 {
            for &n in &[0usize, 1, 2, 3, 16, 255] {
                if n == 0 && b0 != 0 { continue; }
                for &addr in &[0u16, 0x0102, 0xFFFF] {
                    let mut d = arr[..n].to_vec();
                    if n > 0 { d[0] = b0; }
                    let input = format!("frame {:04x}:{:02x}:{}", addr, ty, hex(&d[..n.min(4)]));
                    let r = catch_unwind(AssertUnwindSafe(|| {
                        let f = Frame::new(Address(addr), MsgType(ty), Data::try_new(d.clone()).unwrap());
                        let m = Message::from(f.clone());
                        let want = ref_classify(addr, ty, &d);
                        let got = abs_of(&m);
                        if got != want { return Some((format!("{:?}", want), format!("{:?}", got))); }
                        let back = Frame::from(m);
                        if back != f { return Some((format!("{:?}", f), format!("{:?}", back))); }
                        None
                    }));
                    match r {
                        Err(_) => return Some(Cex { domain: "message", input, expected: "no panic".into(), actual: "panic".into() }),
                        Ok(Some((e, a))) => return Some(Cex { domain: "message", input, expected: e, actual: a }),
                        Ok(None) => {}
                    }
                }
            }
        }
    }
    // every specific message survives Message -> Frame -> wire -> Frame -> Message
    let mut msgs: Vec<Message<'static>> = vec![];
    for &a in &[0u16, 1, 0xFF, 0x100, 0xFFFF] {
        for &(_, s) in STATES.iter() { msgs.push(Message::ReportState(Address(a), s)); }
        for &(_, _, o) in OPS.iter() { msgs.push(Message::RequestOperation(Address(a), o)); msgs.push(Message::AckOperation(Address(a), o)); }
        msgs.push(Message::Hello(Address(a))); msgs.push(Message::QueryState(Address(a))); msgs.push(Message::Goodbye(Address(a)));
        msgs.push(Message::PixelsComplete(Address(a))); msgs.push(Message::DataChunksSent(ChunkCount(a)));
        for &n in &[0usize, 1, 2, 16, 255] { msgs.push(Message::SendData(Offset(a), Data::try_new(arr[..n].to_vec()).unwrap())); }
    }
    // the wire trip does not depend on what was decoded before (a frame rejected for its checksum, for its length, garbage)
    for m in msgs.iter().step_by(7) {
        for prev in [&b":00007F02FF"[..], &b":0000000001"[..], &b":0100000000"[..], &b"?"[..]] {
            let input = format!("{:?} after Frame::from_bytes rejected {:?}", m, String::from_utf8_lossy(prev));
            let r = catch_unwind(AssertUnwindSafe(|| {
                let _ = Frame::from_bytes(prev).map(|_| ());
                let wire = Frame::from(m.clone()).to_bytes_with_newline();
                let back = Frame::from_bytes(&wire).map(Message::from);
                match back { Ok(b) if &b == m => None, other => Some(format!("{:?}", other)) }
            }));
            match r {
                Err(_) => return Some(Cex { domain: "message", input, expected: "no panic".into(), actual: "panic".into() }),
                Ok(Some(a)) => return Some(Cex { domain: "message", input, expected: "equal message after the wire trip".into(), actual: a }),
                Ok(None) => {}
            }
        }
    }
    for m in msgs {
        let input = format!("{:?}", m);
        let r = catch_unwind(AssertUnwindSafe(|| {
            let wire = Frame::from(m.clone()).to_bytes_with_newline();
            let back = Frame::from_bytes(&wire).map(Message::from);
            match back { Ok(b) if b == m => None, other => Some(format!("{:?}", other)) }
        }));
        match r {
            Err(_) => return Some(Cex { domain: "message", input, expected: "no panic".into(), actual: "panic".into() }),
            Ok(Some(a)) => return Some(Cex { domain: "message", input, expected: "equal message after the wire trip".into(), actual: a }),
            Ok(None) => {}
        }
    }
    None
}

// ------------------------------------------------------------------ sign types
fn search_signtype(rng: &mut Rng) -> Option<Cex> {
    for &t in ALL_TYPES.iter() {
        let b = t.to_bytes();
        let (w, h) = t.dimensions();
        let ok = b.len() == 16 && matches!(SignType::from_bytes(b), Ok(x) if x == t) && match b[0] {
            4 => b[4] as u32 == h && (b[5] as u32 + b[6] as u32 + b[7] as u32 + b[8] as u32) == w && b[9] as u32 == 8 * ((h + 7) / 8),
            8 => b[5] as u32 == h && b[7] as u32 == w && (b[8] as u32 * b[10] as u32 + b[9] as u32 * b[11] as u32) == w,
            _ => false,
        };
        if !ok { return Some(Cex { domain: "signtype", input: format!("{:?}", t), expected: "16-byte block, round trip, fields agree with dimensions()".into(), actual: format!("{} dims {:?}", hex(b), (w, h)) }); }
    }
    for fam in 0..=255u8 { for id in 0..=255u8 {
        let mut blk = [0u8; 16];
        for x in blk.iter_mut() { *x = rng.next() as u8; }
        blk[0] = fam; blk[1] = id;
        let want = ALL_TYPES.iter().copied().find(|t| t.to_bytes()[0] == fam && t.to_bytes()[1] == id);
        let got = catch_unwind(AssertUnwindSafe(|| SignType::from_bytes(&blk).ok()));
        match got { Err(_) => return Some(Cex { domain: "signtype", input: hex(&blk), expected: "no panic".into(), actual: "panic".into() }),
            Ok(g) => if g != want { return Some(Cex { domain: "signtype", input: hex(&blk), expected: format!("{:?}", want), actual: format!("{:?}", g) }); } }
    } }
    for n in 0..=40usize { if n == 16 { continue; }
        let v: Vec<u8> = (0..n).map(|_| rng.next() as u8).collect();
        match catch_unwind(AssertUnwindSafe(|| SignType::from_bytes(&v))) {
            Ok(Err(SignTypeError::WrongConfigLength { expected: 16, actual })) if actual == n => {}
            other => return Some(Cex { domain: "signtype", input: hex(&v), expected: format!("WrongConfigLength(16,{})", n), actual: format!("{:?}", other.map(|r| r.map_err(|e| format!("{:?}", e)))) }),
        }
    }
    None
}


// ------------------------------------------------------------------ end to end (C08, bounded native exploration)
fn random_message(rng: &mut Rng, own: u16) -> Message<'static> {
    let addr = if rng.below(4) == 0 { own.wrapping_add(1) } else { own };
    let a = Address(addr);
    let ops = [Operation::ReceiveConfig, Operation::ReceivePixels, Operation::ShowLoadedPage, Operation::LoadNextPage, Operation::StartReset, Operation::FinishReset];
    match rng.below(12) {
        0 => Message::Hello(a),
        1 => Message::QueryState(a),
        2 | 3 => Message::RequestOperation(a, ops[rng.below(6) as usize]),
        4 => Message::PixelsComplete(a),
        5 => Message::Goodbye(a),
        6 => Message::DataChunksSent(ChunkCount(rng.below(5) as u16)),
        7 => {
            let t = ALL_TYPES[rng.below(11) as usize];
            Message::SendData(Offset(0), Data::try_new(t.to_bytes().to_vec()).unwrap())
        }
        8 => {
            let mut blk = [0u8; 16];
            for x in blk.iter_mut() { *x = rng.next() as u8; }
            blk[0] = if rng.below(2) == 0 { 4 } else { 8 };
            Message::SendData(Offset(0), Data::try_new(blk.to_vec()).unwrap())
        }
        _ => {
            let n = [0usize, 1, 15, 16, 16, 16, 17, 255][rng.below(8) as usize];
            let off = if rng.below(3) == 0 { 0 } else { (rng.below(8) * 16) as u16 };
            Message::SendData(Offset(off), Data::try_new((0..n).map(|_| rng.next() as u8).collect::<Vec<u8>>()).unwrap())
        }
    }
}

fn search_e2e(rng: &mut Rng, walks: usize) -> Option<Cex> {
    use flipdot::Sign;
    use flipdot_testing::{VirtualSign, VirtualSignBus};
    use std::cell::RefCell;
    use std::rc::Rc;
    let mut seen = std::collections::HashSet::new();
    for w in 0..walks {
        let own = [1u16, 3, 0x7F, 0x100, 0xFFFF][w % 5];
        let t = ALL_TYPES[(w / 5) % 11];
        let style = if (w / 55) % 2 == 0 { PageFlipStyle::Manual } else { PageFlipStyle::Automatic };
        let mut script: Vec<Message<'static>> = vec![];
        let len = rng.below(40) as usize;
        for _ in 0..len { script.push(random_message(rng, own)); }
        let n_pages = rng.below(3) as usize;
        let input = format!("walk {} own {:04x} type {:?} style {:?} prior {} msgs pages {}", w, own, t, style, len, n_pages);
        let r = catch_unwind(AssertUnwindSafe(|| -> Result<String, String> {
            let bus = Rc::new(RefCell::new(VirtualSignBus::new(vec![VirtualSign::new(Address(own), style)])));
            for m in &script { let _ = bus.borrow_mut().sign(0); use flipdot_core::SignBus; bus.borrow_mut().process_message(m.clone()).map_err(|e| format!("bus error {}", e))?; }
            let sig = { let b = bus.borrow(); let s = b.sign(0); format!("{:?}/{:?}/{}", s.state(), s.sign_type(), s.pages().len()) };
            let sign = Sign::new(bus.clone(), Address(own), t);
            // configure_if_needed is specified for prior states that are not ready-to-receive or record the same type
            let (st0, ty0) = { let b = bus.borrow(); (b.sign(0).state(), b.sign(0).sign_type()) };
            let ready = matches!(st0, State::ConfigReceived | State::ShowingPages | State::PageLoaded | State::PageShowInProgress | State::PageShown | State::PageLoadInProgress);
            if w % 2 == 1 && (!ready || ty0 == Some(t)) {
                sign.configure_if_needed().map_err(|e| format!("configure_if_needed failed from prior {}: {}", sig, e))?;
                if bus.borrow().sign(0).sign_type() != Some(t) { return Err(format!("configure_if_needed from prior {} left type {:?}", sig, bus.borrow().sign(0).sign_type())); }
                let mut pages = vec![];
                for i in 0..n_pages { pages.push(sign.create_page(PageId(if w % 3 == 0 { 1 } else { i as u8 + 1 }))); }
                sign.send_pages(&pages).map_err(|e| format!("send_pages after configure_if_needed from prior {} failed: {}", sig, e))?;
                if bus.borrow().sign(0).pages().len() != pages.len() { return Err("pages differ after configure_if_needed".into()); }
                return Ok(sig);
            }
            sign.configure().map_err(|e| format!("configure failed from prior {}: {}", sig, e))?;
            { let b = bus.borrow(); let s = b.sign(0);
              if s.sign_type() != Some(t) || !s.pages().is_empty() || s.state() != State::ConfigReceived { return Err(format!("after configure: {:?} {:?} {} pages", s.state(), s.sign_type(), s.pages().len())); } }
            let mut pages = vec![];
            for i in 0..n_pages { let mut p = sign.create_page(PageId(if w % 3 == 0 { 1 } else { i as u8 + 1 })); let (pw, ph) = (p.width(), p.height());
                for _ in 0..20 { p.set_pixel((rng_u32(i, w) % pw.max(1)).min(pw - 1), (rng_u32(i + 7, w) % ph.max(1)).min(ph - 1), true); } pages.push(p); }
            let fs = sign.send_pages(&pages).map_err(|e| format!("send_pages failed: {}", e))?;
            if fs != style { return Err(format!("flip style {:?} reported, sign is {:?}", fs, style)); }
            { let b = bus.borrow(); let s = b.sign(0);
              let want = if style == PageFlipStyle::Manual { State::PageLoaded } else { State::ShowingPages };
              if s.state() != want { return Err(format!("state {:?} after send_pages", s.state())); }
              if s.pages().len() != pages.len() || s.pages().iter().zip(pages.iter()).any(|(a, b)| a.as_bytes() != b.as_bytes()) { return Err("pages differ".into()); } }
            sign.show_loaded_page().map_err(|e| format!("show failed: {}", e))?;
            { let st = bus.borrow().sign(0).state(); let want = if style == PageFlipStyle::Manual { State::PageShown } else { State::ShowingPages }; if st != want { return Err(format!("state {:?} after show", st)); } }
            sign.load_next_page().map_err(|e| format!("load_next failed: {}", e))?;
            { let st = bus.borrow().sign(0).state(); let want = if style == PageFlipStyle::Manual { State::PageLoaded } else { State::ShowingPages }; if st != want { return Err(format!("state {:?} after load_next", st)); } }
            sign.send_pages(&pages).map_err(|e| format!("repeated send_pages failed: {}", e))?;
            sign.configure_if_needed().map_err(|e| format!("configure_if_needed failed: {}", e))?;
            if bus.borrow().sign(0).sign_type() != Some(t) { return Err("configure_if_needed lost the type".into()); }
            Ok(sig)
        }));
        match r {
            Err(_) => return Some(Cex { domain: "e2e", input, expected: "no panic".into(), actual: "panic".into() }),
            Ok(Err(m)) => {
                let script_text: Vec<String> = script.iter().map(|x| match x { Message::SendData(o, d) => format!("SendData({},{}B:{})", o.0, d.get().len(), hex(&d.get()[..d.get().len().min(16)])), other => format!("{:?}", other) }).collect();
                return Some(Cex { domain: "e2e", input: format!("{} script=[{}]", input, script_text.join("; ")), expected: "C08 postconditions".into(), actual: m });
            }
            Ok(Ok(sig)) => { seen.insert(sig); }
        }
    }
    eprintln!("e2e: {} walks, {} distinct prior (state, type, pages) signatures", walks, seen.len());
    None
}
fn rng_u32(a: usize, b: usize) -> u32 { ((a as u32).wrapping_mul(2654435761) ^ (b as u32).wrapping_mul(40503)).wrapping_add(12345) }

fn main() {
    let args: Vec<String> = std::env::args().collect();
    let cmd = args.get(1).map(|s| s.as_str()).unwrap_or("");
    let seed: u64 = (if cmd == "replay" { args.get(4) } else { args.get(3) }).and_then(|s| s.parse().ok()).unwrap_or(1) | 1;
    let mut rng = Rng(seed.wrapping_mul(0x9E3779B97F4A7C15) | 1);
    if std::env::var("WITNESS_DEBUG").is_err() {
        std::panic::set_hook(Box::new(|_| {}));
    }
    let scale: usize = std::env::var("WITNESS_SCALE").ok().and_then(|s| s.parse().ok()).unwrap_or(1);
    if cmd == "search" {
        let dom = args[2].as_str();
        let r = match dom {
            "frame-encode" => search_encode(&mut rng, 3000 * scale),
            "frame-decode" => search_decode(&mut rng, 20000 * scale),
            "page" => search_page(&mut rng),
            "message" => search_message(&mut rng),
            "signtype" => search_signtype(&mut rng),
            "e2e" => search_e2e(&mut rng, 110000 * scale),
            "controller" => controller::search_controller(&mut rng, 60000 * scale),
            "stream" => io_domains::search_stream(&mut rng, 4000 * scale),
            "serial" => io_domains::search_serial(&mut rng, 2 * scale),
            "bridge" => io_domains::search_bridge(&mut rng, 40 * scale),
            "serial-path" => io_domains::search_serial_path(&mut rng),
            "bus" => io_domains::search_bus(&mut rng, 3000 * scale),
            _ => { eprintln!("unknown domain"); std::process::exit(2) }
        };
        match r { Some(c) => { report(&c); std::process::exit(1) } None => { println!("{{\"found\":false,\"domain\":\"{}\"}}", dom); } }
    } else if cmd == "replay" {
        // replay <domain> <input>: re-execute one recorded input against the real code
        let dom = args[2].as_str();
        let inp = args[3].as_str();
        let r = match dom {
            "frame-decode" => match inp.split_once('>') { Some((p, b)) => check_decode_after(&unhex(p), &unhex(b)), None => check_decode(&unhex(inp)) },
            "frame-encode" => { let p: Vec<&str> = inp.split(':').collect(); if p.len() == 3 { check_encode(u16::from_str_radix(p[0], 16).unwrap(), u8::from_str_radix(p[1], 16).unwrap(), &unhex(p[2])) } else { search_encode(&mut rng, 0) } }
            "page" => { let t: Vec<&str> = inp.split_whitespace().collect(); let d: Vec<u32> = t[1].split('x').map(|x| x.parse().unwrap()).collect(); check_page(t[3].parse().unwrap_or(0), d[0], d[1]) }
            "message" => search_message(&mut rng),
            "signtype" => search_signtype(&mut rng),
            // these domains have no single-input form: the deterministic search (same seed) is repeated on the current code
            "e2e" => search_e2e(&mut rng, 110000 * scale),
            "controller" => controller::search_controller(&mut rng, 60000 * scale),
            "stream" => io_domains::search_stream(&mut rng, 4000 * scale),
            "serial" => io_domains::search_serial(&mut rng, 2 * scale),
            "bridge" => io_domains::search_bridge(&mut rng, 40 * scale),
            "serial-path" => io_domains::search_serial_path(&mut rng),
            "bus" => io_domains::search_bus(&mut rng, 3000 * scale),
            _ => None,
        };
        match r { Some(c) => { report(&c); std::process::exit(1) } None => println!("{{\"found\":false}}") }
    } else {
        eprintln!("usage: witness search <domain> [seed] | witness replay <domain> <input>");
        std::process::exit(2);
    }
}
