//! Executable transcription of the specification functions (same definitions as contracts/codec_spec.rs and
//! kani/core_message.rs). Trusted to correspond by inspection.
use flipdot_core::*;

#[derive(Clone, Debug, PartialEq)]
pub struct FrameV { pub addr: u16, pub typ: u8, pub data: Vec<u8> }
#[derive(Debug, PartialEq)]
pub enum DecV { Ok(FrameV), Invalid, Mismatch { declared: usize, actual: usize }, BadChecksum { provided: u8, computed: u8 } }

pub fn hex_digit(n: u8) -> u8 { if n < 10 { 48 + n } else { 55 + n } }
pub fn is_hex(c: u8) -> bool { (48..=57).contains(&c) || (65..=70).contains(&c) || (97..=102).contains(&c) }
pub fn hex_val(c: u8) -> u8 { if (48..=57).contains(&c) { c - 48 } else if (65..=70).contains(&c) { c - 55 } else { c - 87 } }
pub fn hex_byte(c: &[u8], i: usize) -> u8 { hex_val(c[i]) * 16 + hex_val(c[i + 1]) }
pub fn lrc(s: &[u8]) -> u8 { s.iter().fold(0u8, |a, b| a.wrapping_sub(*b)) }
pub fn payload(f: &FrameV) -> Vec<u8> { let mut p = vec![f.data.len() as u8, (f.addr >> 8) as u8, f.addr as u8, f.typ]; p.extend_from_slice(&f.data); p }
pub fn ref_enc(f: &FrameV) -> Vec<u8> {
    let mut p = payload(f); let c = lrc(&p); p.push(c);
    let mut o = vec![b':'];
    for b in p { o.push(hex_digit(b >> 4)); o.push(hex_digit(b & 0x0F)); }
    o
}
pub fn strip_crlf(b: &[u8]) -> &[u8] { if b.len() >= 2 && b[b.len() - 2] == 13 && b[b.len() - 1] == 10 { &b[..b.len() - 2] } else { b } }
pub fn shape(b: &[u8]) -> bool { let c = strip_crlf(b); c.len() >= 11 && c.len() % 2 == 1 && c[0] == b':' && c[1..].iter().all(|&x| is_hex(x)) }
pub fn ref_dec(b: &[u8]) -> DecV {
    if !shape(b) { return DecV::Invalid; }
    let c = strip_crlf(b);
    let declared = hex_byte(c, 1) as usize;
    let addr = (hex_byte(c, 3) as u16) * 256 + hex_byte(c, 5) as u16;
    let typ = hex_byte(c, 7);
    let k = (c.len() - 11) / 2;
    let data: Vec<u8> = (0..k).map(|i| hex_byte(c, 9 + 2 * i)).collect();
    let provided = hex_byte(c, c.len() - 2);
    if k != declared { return DecV::Mismatch { declared, actual: k }; }
    let f = FrameV { addr, typ, data };
    let computed = lrc(&payload(&f));
    if computed != provided { return DecV::BadChecksum { provided, computed }; }
    DecV::Ok(f)
}

pub const STATES: [(u8, State); 13] = [
    (0x0F, State::Unconfigured), (0x0D, State::ConfigInProgress), (0x07, State::ConfigReceived), (0x0C, State::ConfigFailed),
    (0x03, State::PixelsInProgress), (0x01, State::PixelsReceived), (0x0B, State::PixelsFailed), (0x10, State::PageLoaded),
    (0x13, State::PageLoadInProgress), (0x12, State::PageShown), (0x11, State::PageShowInProgress), (0x00, State::ShowingPages),
    (0x08, State::ReadyToReset),
];
pub const OPS: [(u8, u8, Operation); 6] = [
    (0xA1, 0x95, Operation::ReceiveConfig), (0xA2, 0x91, Operation::ReceivePixels), (0xA9, 0x96, Operation::ShowLoadedPage),
    (0xAA, 0x97, Operation::LoadNextPage), (0xA6, 0x93, Operation::StartReset), (0xA7, 0x94, Operation::FinishReset),
];
pub const ALL_TYPES: [SignType; 11] = [
    SignType::Max3000Front112x16, SignType::Max3000Front98x16, SignType::Max3000Side90x7, SignType::Max3000Rear30x10,
    SignType::Max3000Rear23x10, SignType::Max3000Dash30x7, SignType::HorizonFront160x16, SignType::HorizonFront140x16,
    SignType::HorizonSide96x8, SignType::HorizonRear48x16, SignType::HorizonDash40x12,
];

#[derive(Debug, PartialEq)]
pub enum Abs { SendData(u16, Vec<u8>), Chunks(u16), Hello(u16), Query(u16), Goodbye(u16), Report(u16, State), Req(u16, Operation), Ack(u16, Operation), PixelsComplete(u16), Unknown(u16, u8, Vec<u8>), Other }

pub fn abs_of(m: &Message<'_>) -> Abs {
    match m {
        Message::SendData(Offset(o), d) => Abs::SendData(*o, d.get().to_vec()),
        Message::DataChunksSent(ChunkCount(c)) => Abs::Chunks(*c),
        Message::Hello(Address(a)) => Abs::Hello(*a),
        Message::QueryState(Address(a)) => Abs::Query(*a),
        Message::Goodbye(Address(a)) => Abs::Goodbye(*a),
        Message::ReportState(Address(a), s) => Abs::Report(*a, *s),
        Message::RequestOperation(Address(a), o) => Abs::Req(*a, *o),
        Message::AckOperation(Address(a), o) => Abs::Ack(*a, *o),
        Message::PixelsComplete(Address(a)) => Abs::PixelsComplete(*a),
        Message::Unknown(f) => Abs::Unknown(f.address().0, f.message_type().0, f.data().to_vec()),
        _ => Abs::Other,
    }
}
pub fn ref_classify(addr: u16, ty: u8, d: &[u8]) -> Abs {
    if ty == 0 { return Abs::SendData(addr, d.to_vec()); }
    if ty == 1 && d.is_empty() { return Abs::Chunks(addr); }
    if d.len() == 1 {
        match (ty, d[0]) { (2, 0xFF) => return Abs::Hello(addr), (2, 0x00) => return Abs::Query(addr), (2, 0x55) => return Abs::Goodbye(addr), (6, 0x00) => return Abs::PixelsComplete(addr), _ => {} }
        for (c, s) in STATES.iter() { if ty == 4 && d[0] == *c { return Abs::Report(addr, *s); } }
        for (rq, ak, o) in OPS.iter() { if ty == 3 && d[0] == *rq { return Abs::Req(addr, *o); } if ty == 5 && d[0] == *ak { return Abs::Ack(addr, *o); } }
    }
    Abs::Unknown(addr, ty, d.to_vec())
}
