//! Native bounded checks of the I/O-facing code: Frame::read / Frame::write on adversarial streams (C15), the serial
//! bus exchange (C16, C18), the ODK bridge and the full serial path against the direct path (C17).
use crate::refspec::{lrc, payload, ref_enc, FrameV};
use crate::{hex, Cex, Rng};
use flipdot::Sign;
use flipdot_core::*;
use flipdot_serial::SerialSignBus;
use flipdot_testing::{Odk, VirtualSign, VirtualSignBus};
use serial_core::{PortSettings, SerialDevice};
use std::cell::RefCell;
use std::collections::VecDeque;
use std::io::{self, Read, Write};
use std::panic::{catch_unwind, AssertUnwindSafe};
use std::rc::Rc;
use std::time::{Duration, Instant};

fn settings() -> PortSettings {
    PortSettings { baud_rate: serial_core::Baud110, char_size: serial_core::Bits7, parity: serial_core::ParityEven, stop_bits: serial_core::Stop2, flow_control: serial_core::FlowSoftware }
}

// ---------------------------------------------------------------- adversarial reader / writer
pub struct AdvReader {
    pub data: Vec<u8>,
    pub pos: usize,
    pub calls: usize,
    pub interrupt_calls: Vec<usize>,
    pub hard_error_call: usize,
    pub max_chunk: usize,
    pub seed: u64,
}
impl Read for AdvReader {
    fn read(&mut self, buf: &mut [u8]) -> io::Result<usize> {
        self.calls += 1;
        if self.calls == self.hard_error_call {
            return Err(io::Error::new(io::ErrorKind::BrokenPipe, "hard error"));
        }
        if self.interrupt_calls.contains(&self.calls) {
            return Err(io::Error::from(io::ErrorKind::Interrupted));
        }
        self.seed = self.seed.wrapping_mul(6364136223846793005).wrapping_add(1442695040888963407);
        let want = 1 + (self.seed >> 33) as usize % self.max_chunk.max(1);
        let n = want.min(buf.len()).min(self.data.len() - self.pos);
        buf[..n].copy_from_slice(&self.data[self.pos..self.pos + n]);
        self.pos += n;
        Ok(n)
    }
}
pub struct AdvWriter {
    pub got: Vec<u8>,
    pub calls: usize,
    pub accept: usize,
    pub interrupt_calls: Vec<usize>,
    pub hard_error_call: usize,
}
impl Write for AdvWriter {
    fn write(&mut self, buf: &[u8]) -> io::Result<usize> {
        self.calls += 1;
        if self.calls == self.hard_error_call {
            return Err(io::Error::new(io::ErrorKind::BrokenPipe, "hard error"));
        }
        if self.interrupt_calls.contains(&self.calls) {
            return Err(io::Error::from(io::ErrorKind::Interrupted));
        }
        let n = buf.len().min(self.accept.max(1));
        self.got.extend_from_slice(&buf[..n]);
        Ok(n)
    }
    fn flush(&mut self) -> io::Result<()> {
        Ok(())
    }
}

fn random_frame(rng: &mut Rng) -> Frame<'static> {
    let n = [0usize, 1, 2, 16, 40, 255][rng.below(6) as usize];
    Frame::new(Address(rng.next() as u16), MsgType(rng.next() as u8), Data::try_new((0..n).map(|_| rng.next() as u8).collect::<Vec<u8>>()).unwrap())
}

/// Frames with little entropy (zeros, colons' code 0x3A, CR/LF codes, checksum 0): the ones whose encoding contains
/// stretches that look like a frame of their own, so that damage with a structural character could be mistaken for a
/// shorter valid frame.
fn low_entropy_frame(rng: &mut Rng) -> FrameV {
    let n = [0usize, 1, 2, 5, 6, 8, 16][rng.below(7) as usize];
    let pick = |rng: &mut Rng| [0u8, 0, 0, 0, 1, 0xFF, 0x3A, 0x0A, 0x0D, 0x7F][rng.below(10) as usize];
    let mut data: Vec<u8> = (0..n).map(|_| pick(rng)).collect();
    let addr = [0u16, 0, 1, 0x7F, 0x3A3A, 0x0A0D, 0x0100][rng.below(7) as usize];
    let typ = [0u8, 0, 1, 2, 4, 0x3A][rng.below(6) as usize];
    let mut f = FrameV { addr, typ, data: data.clone() };
    if n > 0 && rng.below(2) == 0 {
        // make the checksum 0 by adjusting the first data byte
        let c = lrc(&payload(&f));
        data[0] = data[0].wrapping_add(c);
        f.data = data;
    }
    f
}

/// C15 "the result equals decoding that line" (and C02 through the stream path) for DAMAGED lines: every
/// single-character substitution with a structural or neighbouring character, deletion, duplication, adjacent swap and
/// truncation of the encoding of a low-entropy frame, read through Frame::read from a fragmenting reader, must be
/// classified exactly like the reference decoder classifies the first line, and exactly that line must be consumed.
fn search_read_damaged(rng: &mut Rng, rounds: usize) -> Option<Cex> {
    for _ in 0..rounds {
        let f = low_entropy_frame(rng);
        let w = ref_enc(&f);
        let positions: Vec<usize> = if w.len() <= 48 { (0..w.len()).collect() } else { (0..16).chain(w.len() - 16..w.len()).collect() };
        let mut variants: Vec<Vec<u8>> = vec![w.clone()];
        for &i in &positions {
            for c2 in [b':', b'\r', b'0', b'F', b'a', w[i] ^ 1, w[i] ^ 0x20, 0u8] {
                if c2 != w[i] { let mut m = w.clone(); m[i] = c2; variants.push(m); }
            }
            let mut d = w.clone(); d.remove(i); variants.push(d);
            let mut u = w.clone(); u.insert(i, w[i]); variants.push(u);
            if i + 1 < w.len() && w[i] != w[i + 1] { let mut x = w.clone(); x.swap(i, i + 1); variants.push(x); }
            variants.push(w[..i].to_vec());
        }
        for v in variants {
            if v.contains(&b'\n') { continue; }
            let mut stream = v.clone();
            stream.extend_from_slice(b"\r\n");
            let line_len = stream.len();
            stream.extend_from_slice(b":00000000");
            let mut r = AdvReader { data: stream.clone(), pos: 0, calls: 0, interrupt_calls: vec![], hard_error_call: 0, max_chunk: 1 + rng.below(5) as usize, seed: rng.next() };
            let got = crate::classify_result(catch_unwind(AssertUnwindSafe(|| Frame::read(&mut r))));
            let want = crate::classify_ref(&stream[..line_len]);
            let input = format!("damaged line {:?} (from frame {:04x}:{:02x}:{}) read through Frame::read", String::from_utf8_lossy(&stream[..line_len]), f.addr, f.typ, hex(&f.data));
            if got != want {
                return Some(Cex { domain: "stream", input, expected: format!("{} (= decoding of that line)", want), actual: got });
            }
            if r.pos != line_len {
                return Some(Cex { domain: "stream", input, expected: format!("{} bytes consumed", line_len), actual: format!("{} consumed", r.pos) });
            }
        }
    }
    None
}

pub fn search_stream(rng: &mut Rng, rounds: usize) -> Option<Cex> {
    if let Some(c) = search_read_damaged(rng, rounds / 4) { return Some(c); }
    for round in 0..rounds {
        // ---- read side: k frames back to back + trailing bytes
        let k = 1 + rng.below(3) as usize;
        let frames: Vec<Frame<'static>> = (0..k).map(|_| random_frame(rng)).collect();
        let mut data = vec![];
        let mut lines = vec![];
        for f in &frames {
            let l = f.to_bytes_with_newline();
            lines.push(l.clone());
            data.extend_from_slice(&l);
        }
        let trailing: Vec<u8> = (0..rng.below(6)).map(|_| [b':', b'0', b'\r', 0xFF, b'A'][rng.below(5) as usize]).collect();
        data.extend_from_slice(&trailing);
        let interrupts: Vec<usize> = (0..rng.below(4)).map(|_| 1 + rng.below(60) as usize).collect();
        let hard = if round % 3 == 0 { 1 + rng.below(40) as usize } else { 0 };
        let mut r = AdvReader { data: data.clone(), pos: 0, calls: 0, interrupt_calls: interrupts.clone(), hard_error_call: hard, max_chunk: 1 + rng.below(7) as usize, seed: rng.next() };
        let input = format!("stream {} frames={} trailing={} interrupts={:?} hard_error_call={}", hex(&data[..data.len().min(40)]), k, trailing.len(), interrupts, hard);
        let mut consumed_expected = 0usize;
        for (i, f) in frames.iter().enumerate() {
            let res = catch_unwind(AssertUnwindSafe(|| Frame::read(&mut r)));
            match res {
                Err(_) => return Some(Cex { domain: "stream", input, expected: "no panic".into(), actual: "panic in Frame::read".into() }),
                Ok(Err(FrameError::Io { .. })) if hard != 0 && r.calls >= hard => break, // the injected hard error surfaced as Io
                Ok(Ok(g)) => {
                    consumed_expected += lines[i].len();
                    if &g != f {
                        return Some(Cex { domain: "stream", input, expected: format!("frame {} == {:?}", i, f), actual: format!("{:?}", g) });
                    }
                    if r.pos != consumed_expected {
                        return Some(Cex { domain: "stream", input, expected: format!("{} bytes consumed after frame {}", consumed_expected, i), actual: format!("{} consumed", r.pos) });
                    }
                }
                Ok(other) => return Some(Cex { domain: "stream", input, expected: format!("frame {} read back", i), actual: format!("{:?}", other.map(|_| ())) }),
            }
        }
        // ---- write side
        let f = random_frame(rng);
        let want = f.to_bytes_with_newline();
        let hardw = if round % 4 == 0 { 1 + rng.below(6) as usize } else { 0 };
        let mut w = AdvWriter { got: vec![], calls: 0, accept: 1 + rng.below(9) as usize, interrupt_calls: vec![1 + rng.below(5) as usize], hard_error_call: hardw };
        let inputw = format!("write {:?} accept={} interrupt_at={:?} hard_error_call={}", f, w.accept, w.interrupt_calls, hardw);
        match catch_unwind(AssertUnwindSafe(|| f.write(&mut w))) {
            Err(_) => return Some(Cex { domain: "stream", input: inputw, expected: "no panic".into(), actual: "panic in Frame::write".into() }),
            Ok(Ok(())) => {
                if w.got != want {
                    return Some(Cex { domain: "stream", input: inputw, expected: format!("sink holds {}", String::from_utf8_lossy(&want)), actual: format!("{}", String::from_utf8_lossy(&w.got)) });
                }
            }
            Ok(Err(FrameError::Io { .. })) => {
                if hardw == 0 || w.calls < hardw {
                    return Some(Cex { domain: "stream", input: inputw, expected: "Ok (no hard error was injected)".into(), actual: "Err(Io)".into() });
                }
                if !want.starts_with(&w.got) {
                    return Some(Cex { domain: "stream", input: inputw, expected: "a prefix of the encoding was delivered".into(), actual: hex(&w.got) });
                }
            }
            Ok(Err(e)) => return Some(Cex { domain: "stream", input: inputw, expected: "Ok or Err(Io)".into(), actual: format!("{:?}", e) }),
        }
    }
    None
}

// ---------------------------------------------------------------- scripted serial port
pub struct ScriptPort {
    pub written: Vec<u8>,
    pub write_calls: usize,
    pub inbound: VecDeque<u8>,
    pub reads: usize,
    pub write_error: Option<io::ErrorKind>,
    pub read_error: Option<io::ErrorKind>,
    pub settings: PortSettings,
}
impl ScriptPort {
    pub fn new(inbound: &[u8]) -> Self {
        ScriptPort { written: vec![], write_calls: 0, inbound: inbound.iter().copied().collect(), reads: 0, write_error: None, read_error: None, settings: settings() }
    }
}
impl Read for ScriptPort {
    fn read(&mut self, buf: &mut [u8]) -> io::Result<usize> {
        self.reads += 1;
        if let Some(k) = self.read_error {
            return Err(io::Error::new(k, "injected read error"));
        }
        let mut n = 0;
        while n < buf.len() {
            match self.inbound.pop_front() {
                Some(b) => { buf[n] = b; n += 1; }
                None => break,
            }
        }
        Ok(n)
    }
}
impl Write for ScriptPort {
    fn write(&mut self, buf: &[u8]) -> io::Result<usize> {
        self.write_calls += 1;
        if let Some(k) = self.write_error {
            return Err(io::Error::new(k, "injected write error"));
        }
        let n = buf.len().min(7); // a port that accepts only a few bytes per call
        self.written.extend_from_slice(&buf[..n]);
        Ok(n)
    }
    fn flush(&mut self) -> io::Result<()> {
        Ok(())
    }
}
impl SerialDevice for ScriptPort {
    type Settings = PortSettings;
    fn read_settings(&self) -> serial_core::Result<PortSettings> { Ok(self.settings) }
    fn write_settings(&mut self, s: &PortSettings) -> serial_core::Result<()> { self.settings = *s; Ok(()) }
    fn timeout(&self) -> Duration { Duration::from_secs(1) }
    fn set_timeout(&mut self, _: Duration) -> serial_core::Result<()> { Ok(()) }
    fn set_rts(&mut self, _: bool) -> serial_core::Result<()> { Ok(()) }
    fn set_dtr(&mut self, _: bool) -> serial_core::Result<()> { Ok(()) }
    fn read_cts(&mut self) -> serial_core::Result<bool> { Ok(false) }
    fn read_dsr(&mut self) -> serial_core::Result<bool> { Ok(false) }
    fn read_ri(&mut self) -> serial_core::Result<bool> { Ok(false) }
    fn read_cd(&mut self) -> serial_core::Result<bool> { Ok(false) }
}

fn sample_messages(rng: &mut Rng) -> Vec<Message<'static>> {
    let a = Address(rng.next() as u16);
    let ops = [Operation::ReceiveConfig, Operation::ReceivePixels, Operation::ShowLoadedPage, Operation::LoadNextPage, Operation::StartReset, Operation::FinishReset];
    let mut v = vec![
        Message::Hello(a), Message::QueryState(a), Message::Goodbye(a), Message::PixelsComplete(a), Message::DataChunksSent(ChunkCount(rng.next() as u16)),
        Message::ReportState(a, State::PageShown), Message::AckOperation(a, ops[rng.below(6) as usize]), Message::RequestOperation(a, ops[rng.below(6) as usize]),
        Message::Unknown(Frame::new(a, MsgType(2), Data::try_new(vec![0x77u8]).unwrap())), Message::Unknown(Frame::new(a, MsgType(3), Data::try_new(vec![1u8, 2]).unwrap())),
    ];
    for n in [0usize, 1, 16, 40] {
        v.push(Message::SendData(Offset(rng.next() as u16), Data::try_new((0..n).map(|_| rng.next() as u8).collect::<Vec<u8>>()).unwrap()));
    }
    v
}

pub fn search_serial(rng: &mut Rng, rounds: usize) -> Option<Cex> {
    use flipdot_core::SignBus;
    let kinds = [io::ErrorKind::TimedOut, io::ErrorKind::Other, io::ErrorKind::BrokenPipe, io::ErrorKind::UnexpectedEof, io::ErrorKind::InvalidData, io::ErrorKind::WouldBlock];
    let replies: Vec<Vec<u8>> = vec![
        Frame::from(Message::ReportState(Address(3), State::ConfigReceived)).to_bytes_with_newline(),
        Frame::from(Message::ReportState(Address(3), State::PageLoadInProgress)).to_bytes_with_newline(),
        Frame::from(Message::ReportState(Address(3), State::PageShowInProgress)).to_bytes_with_newline(),
        Frame::from(Message::AckOperation(Address(0xFFFF), Operation::FinishReset)).to_bytes_with_newline(),
        b":0000030AF3\r\n".to_vec(), // unknown frame
        // the longest lines the protocol allows (255 and 254 data bytes): a cap on the line length that is a few bytes short shows only here
        Frame::new(Address(3), MsgType(0x0A), Data::try_new(vec![0x5Au8; 255]).unwrap()).to_bytes_with_newline(),
        Frame::new(Address(0xFFFF), MsgType(0xFF), Data::try_new((0..254u32).map(|i| (i * 7) as u8).collect::<Vec<u8>>()).unwrap()).to_bytes_with_newline(),
    ];
    let bad_replies: Vec<Vec<u8>> = vec![b"".to_vec(), b"\r\n".to_vec(), b":0100030407\r\n".to_vec(), b":01000304078C\r\n".to_vec(), b"garbage\n".to_vec(), b":01000304078".to_vec()];
    for _ in 0..rounds {
        for m in sample_messages(rng) {
            let due = matches!(m, Message::Hello(_) | Message::QueryState(_) | Message::RequestOperation(_, _));
            let is_data = matches!(m, Message::SendData(..));
            let want_out = Frame::from(m.clone()).to_bytes_with_newline();
            let reply = replies[rng.below(replies.len() as u64) as usize].clone();
            let mut extra = reply.clone();
            extra.extend_from_slice(b":TRAILING");
            let input = format!("{:?} reply {}", m, String::from_utf8_lossy(&reply).trim());
            // ---- no failure
            let port = ScriptPort::new(&extra);
            let mut bus = match SerialSignBus::try_new(port) { Ok(b) => b, Err(e) => return Some(Cex { domain: "serial", input, expected: "try_new ok".into(), actual: format!("{:?}", e) }) };
            let t0 = Instant::now();
            let r = catch_unwind(AssertUnwindSafe(|| bus.process_message(m.clone())));
            let dt = t0.elapsed();
            let port = bus.port();
            let r = match r { Err(_) => return Some(Cex { domain: "serial", input, expected: "no panic".into(), actual: "panic".into() }), Ok(r) => r };
            if port.written != want_out {
                return Some(Cex { domain: "serial", input, expected: format!("port receives {}", String::from_utf8_lossy(&want_out).trim()), actual: format!("{}", String::from_utf8_lossy(&port.written).trim()) });
            }
            let want_reply = if due { Some(Message::from(Frame::from_bytes(&reply).unwrap())) } else { None };
            match &r {
                Ok(got) if *got == want_reply => {}
                other => return Some(Cex { domain: "serial", input, expected: format!("{:?}", want_reply), actual: format!("{:?}", other.as_ref().map_err(|e| e.to_string())) }),
            }
            let consumed = extra.len() - port.inbound.len();
            if consumed != if due { reply.len() } else { 0 } {
                return Some(Cex { domain: "serial", input, expected: format!("{} reply bytes consumed", if due { reply.len() } else { 0 }), actual: format!("{}", consumed) });
            }
            let paced_reply = due && matches!(want_reply, Some(Message::ReportState(_, State::PageLoadInProgress)) | Some(Message::ReportState(_, State::PageShowInProgress)));
            if is_data && dt < Duration::from_millis(30) {
                return Some(Cex { domain: "serial", input, expected: ">= 30 ms after a data chunk".into(), actual: format!("{:?}", dt) });
            }
            if paced_reply && dt < Duration::from_millis(100) {
                return Some(Cex { domain: "serial", input, expected: ">= 100 ms after an in-progress report".into(), actual: format!("{:?}", dt) });
            }
            // ---- write failure of every kind: an error, never a missing or invented reply
            for k in kinds {
                let mut port = ScriptPort::new(&extra);
                port.write_error = Some(k);
                let mut bus = SerialSignBus::try_new(port).unwrap();
                match catch_unwind(AssertUnwindSafe(|| bus.process_message(m.clone()))) {
                    Ok(Err(_)) => {}
                    other => return Some(Cex { domain: "serial", input: format!("{} write error {:?}", input, k), expected: "Err".into(), actual: format!("{:?}", other.map(|r| r.map_err(|e| e.to_string())).map_err(|_| "panic")) }),
                }
                if bus.port().reads != 0 { return Some(Cex { domain: "serial", input: format!("{} write error {:?}", input, k), expected: "no read after a failed write".into(), actual: format!("{} reads", bus.port().reads) }); }
            }
            if due {
                for k in kinds {
                    let mut port = ScriptPort::new(&extra);
                    port.read_error = Some(k);
                    let mut bus = SerialSignBus::try_new(port).unwrap();
                    match catch_unwind(AssertUnwindSafe(|| bus.process_message(m.clone()))) {
                        Ok(Err(_)) => {}
                        other => return Some(Cex { domain: "serial", input: format!("{} read error {:?}", input, k), expected: "Err".into(), actual: format!("{:?}", other.map(|r| r.map_err(|e| e.to_string())).map_err(|_| "panic")) }),
                    }
                }
                for bad in &bad_replies {
                    let mut bus = SerialSignBus::try_new(ScriptPort::new(bad)).unwrap();
                    match catch_unwind(AssertUnwindSafe(|| bus.process_message(m.clone()))) {
                        Ok(Err(_)) => {}
                        other => return Some(Cex { domain: "serial", input: format!("{} undecodable reply {:?}", input, String::from_utf8_lossy(bad)), expected: "Err".into(), actual: format!("{:?}", other.map(|r| r.map_err(|e| e.to_string())).map_err(|_| "panic")) }),
                    }
                }
            }
        }
        // ---- one bus object over a whole conversation: every exchange is judged on its own, whatever came before
        // (a reply that could not be decoded, a failed exchange) - the bus keeps no state between messages
        {
            let shared = Rc::new(RefCell::new(ScriptPort::new(b"")));
            let mut bus = SerialSignBus::try_new(SharedPort(shared.clone())).unwrap();
            let mut history = String::new();
            for step in 0..10 {
                let m = match rng.below(3) { 0 => Message::Hello(Address(3)), 1 => Message::QueryState(Address(3)), _ => Message::RequestOperation(Address(3), Operation::StartReset) };
                let good = rng.below(2) == 0;
                let line: Vec<u8> = if good { replies[rng.below(replies.len() as u64) as usize].clone() } else { bad_replies[1 + rng.below(4) as usize].clone() };
                {
                    let mut p = shared.borrow_mut();
                    p.inbound.clear();
                    p.inbound.extend(line.iter().copied());
                    // more traffic is already waiting behind the reply line: exactly one line may be consumed
                    p.inbound.extend(b":0000030AF3\r\n".iter().copied());
                    p.written.clear();
                }
                let input = format!("one bus object, exchange {} {:?} answered {:?} after [{}]", step, m, String::from_utf8_lossy(&line), history);
                let r = match catch_unwind(AssertUnwindSafe(|| bus.process_message(m.clone()))) { Ok(r) => r, Err(_) => return Some(Cex { domain: "serial", input, expected: "no panic".into(), actual: "panic".into() }) };
                let want_out = Frame::from(m.clone()).to_bytes_with_newline();
                if shared.borrow().written != want_out {
                    return Some(Cex { domain: "serial", input, expected: format!("port receives {}", String::from_utf8_lossy(&want_out).trim()), actual: format!("{}", String::from_utf8_lossy(&shared.borrow().written).trim()) });
                }
                if good {
                    let want = Some(Message::from(Frame::from_bytes(&line).unwrap()));
                    match &r {
                        Ok(got) if *got == want => {}
                        other => return Some(Cex { domain: "serial", input, expected: format!("{:?}", want), actual: format!("{:?}", other.as_ref().map_err(|e| e.to_string())) }),
                    }
                } else if r.is_ok() {
                    return Some(Cex { domain: "serial", input, expected: "Err (undecodable reply)".into(), actual: format!("{:?}", r.map_err(|e| e.to_string())) });
                }
                if line.ends_with(b"\n") && shared.borrow().inbound.len() != 13 {
                    return Some(Cex { domain: "serial", input, expected: "exactly the reply line consumed (13 bytes of later traffic left on the port)".into(), actual: format!("{} bytes left", shared.borrow().inbound.len()) });
                }
                history.push_str(if good { "ok " } else { "bad " });
            }
        }
    }
    None
}

// ---------------------------------------------------------------- bridge and the full serial path
#[derive(Clone)]
struct SharedPort(Rc<RefCell<ScriptPort>>);
impl Read for SharedPort {
    fn read(&mut self, buf: &mut [u8]) -> io::Result<usize> { self.0.borrow_mut().read(buf) }
}
impl Write for SharedPort {
    fn write(&mut self, buf: &[u8]) -> io::Result<usize> { self.0.borrow_mut().write(buf) }
    fn flush(&mut self) -> io::Result<()> { Ok(()) }
}
impl SerialDevice for SharedPort {
    type Settings = PortSettings;
    fn read_settings(&self) -> serial_core::Result<PortSettings> { Ok(self.0.borrow().settings) }
    fn write_settings(&mut self, s: &PortSettings) -> serial_core::Result<()> { self.0.borrow_mut().settings = *s; Ok(()) }
    fn timeout(&self) -> Duration { Duration::from_secs(1) }
    fn set_timeout(&mut self, _: Duration) -> serial_core::Result<()> { Ok(()) }
    fn set_rts(&mut self, _: bool) -> serial_core::Result<()> { Ok(()) }
    fn set_dtr(&mut self, _: bool) -> serial_core::Result<()> { Ok(()) }
    fn read_cts(&mut self) -> serial_core::Result<bool> { Ok(false) }
    fn read_dsr(&mut self) -> serial_core::Result<bool> { Ok(false) }
    fn read_ri(&mut self) -> serial_core::Result<bool> { Ok(false) }
    fn read_cd(&mut self) -> serial_core::Result<bool> { Ok(false) }
}
struct SharedBus(Rc<RefCell<VirtualSignBus<'static>>>, Rc<RefCell<usize>>);
impl SignBus for SharedBus {
    fn process_message<'a>(&mut self, message: Message<'_>) -> Result<Option<Message<'a>>, Box<dyn std::error::Error + Send + Sync>> {
        *self.1.borrow_mut() += 1;
        self.0.borrow_mut().process_message(message)
    }
}

fn sign_sig(b: &VirtualSignBus<'_>) -> String {
    let s = b.sign(0);
    format!("{:?}/{:?}/{}", s.state(), s.sign_type(), s.pages().iter().map(|p| hex(p.as_bytes())).collect::<Vec<_>>().join(","))
}

pub fn search_bridge(rng: &mut Rng, rounds: usize) -> Option<Cex> {
    for round in 0..rounds {
        let own = Address(3);
        let style = if round % 2 == 0 { PageFlipStyle::Manual } else { PageFlipStyle::Automatic };
        let a = Rc::new(RefCell::new(VirtualSignBus::new(vec![VirtualSign::new(own, style)])));
        let mut b = VirtualSignBus::new(vec![VirtualSign::new(own, style)]);
        let calls = Rc::new(RefCell::new(0usize));
        let port = Rc::new(RefCell::new(ScriptPort::new(b"")));
        let mut odk = match Odk::try_new(SharedPort(port.clone()), SharedBus(a.clone(), calls.clone())) { Ok(o) => o, Err(e) => return Some(Cex { domain: "bridge", input: "try_new".into(), expected: "ok".into(), actual: format!("{:?}", e) }) };
        // a conversation: valid protocol traffic interleaved with lines the bridge cannot decode
        let mut lines: Vec<Vec<u8>> = vec![];
        let t = crate::refspec::ALL_TYPES[rng.below(11) as usize];
        let script: Vec<Message<'static>> = vec![
            Message::Hello(own), Message::RequestOperation(own, Operation::ReceiveConfig),
            Message::SendData(Offset(0), Data::try_new(t.to_bytes().to_vec()).unwrap()), Message::DataChunksSent(ChunkCount(1)), Message::QueryState(own),
            Message::RequestOperation(own, Operation::ReceivePixels), Message::SendData(Offset(0), Data::try_new(vec![rng.next() as u8; 16]).unwrap()),
            Message::DataChunksSent(ChunkCount(1)), Message::QueryState(own), Message::PixelsComplete(own), Message::QueryState(Address(4)),
            // frames of the maximum legal length (255 data bytes = a 523-character line) and just below
            Message::RequestOperation(own, Operation::ReceivePixels), Message::SendData(Offset(0), Data::try_new(vec![rng.next() as u8; 255]).unwrap()),
            Message::SendData(Offset(255), Data::try_new(vec![rng.next() as u8; 128]).unwrap()), Message::DataChunksSent(ChunkCount(2)), Message::QueryState(own),
            // data chunks of length 0 and 1 are messages like any other: forwarded, counted by the sign
            Message::RequestOperation(own, Operation::ReceivePixels), Message::SendData(Offset(0), Data::try_new(Vec::<u8>::new()).unwrap()),
            Message::SendData(Offset(16), Data::try_new(vec![rng.next() as u8; 1]).unwrap()), Message::DataChunksSent(ChunkCount(2)), Message::QueryState(own),
            Message::Goodbye(own),
        ];
        for m in script {
            lines.push(Frame::from(m).to_bytes_with_newline());
            match rng.below(6) {
                4 => lines.push(b"\r\n".to_vec()), // a blank line is an undecodable line like any other
                0 => lines.push(b"\0:01000303A158\r\n".to_vec()),
                1 => lines.push(b":01000304078C\r\n".to_vec()),
                2 => lines.push(b"junk\n".to_vec()),
                3 => lines.push(b":0000030AF3\r\n".to_vec()), // valid but unknown frame: forwarded
                _ => {}
            }
        }
        // the whole conversation is already waiting on the port: each call must consume exactly ONE line of it
        for line in &lines {
            port.borrow_mut().inbound.extend(line.iter().copied());
        }
        for line in &lines {
            let input = format!("bridge line {:?}", String::from_utf8_lossy(&line[..line.len().min(60)]));
            port.borrow_mut().written.clear();
            let calls_before = *calls.borrow();
            let waiting_before = port.borrow().inbound.len();
            let r = catch_unwind(AssertUnwindSafe(|| odk.process_message()));
            let r = match r { Err(_) => return Some(Cex { domain: "bridge", input, expected: "no panic".into(), actual: "panic".into() }), Ok(r) => r };
            match Frame::from_bytes(line) {
                Ok(f) => {
                    use flipdot_core::SignBus;
                    let reply = b.process_message(Message::from(f)).unwrap();
                    let want: Vec<u8> = reply.map(|m| Frame::from(m).to_bytes_with_newline()).unwrap_or_default();
                    if r.is_err() || port.borrow().written != want || *calls.borrow() != calls_before + 1 {
                        return Some(Cex { domain: "bridge", input, expected: format!("forwarded once, wrote {:?}", String::from_utf8_lossy(&want)), actual: format!("result {:?}, wrote {:?}, bus calls {}", r.map_err(|e| e.to_string()), String::from_utf8_lossy(&port.borrow().written), *calls.borrow() - calls_before) });
                    }
                }
                Err(_) => {
                    let comm = matches!(r, Err(flipdot_testing::OdkError::Communication { .. }));
                    if !comm || *calls.borrow() != calls_before || !port.borrow().written.is_empty() {
                        return Some(Cex { domain: "bridge", input, expected: "Communication error, bus untouched, nothing written".into(), actual: format!("result {:?}, bus calls {}, wrote {} bytes", r.map_err(|e| e.to_string()), *calls.borrow() - calls_before, port.borrow().written.len()) });
                    }
                }
            }
            if sign_sig(&a.borrow()) != sign_sig(&b) {
                return Some(Cex { domain: "bridge", input, expected: sign_sig(&b), actual: sign_sig(&a.borrow()) });
            }
            let consumed = waiting_before - port.borrow().inbound.len();
            if consumed != line.len() {
                return Some(Cex { domain: "bridge", input, expected: format!("exactly this line ({} bytes) consumed", line.len()), actual: format!("{} bytes consumed", consumed) });
            }
        }
    }
    None
}

/// the controller's port: what it writes is handed to the bridge when it starts reading (or when pumped)
struct LoopPort {
    to_odk: Vec<u8>,
    from_odk: VecDeque<u8>,
    far: Rc<RefCell<ScriptPort>>,
    odk: Rc<RefCell<Odk<SharedPort, SharedBus>>>,
    settings: PortSettings,
}
impl LoopPort {
    fn pump(&mut self) {
        let lines = self.to_odk.iter().filter(|&&b| b == b'\n').count();
        self.far.borrow_mut().inbound.extend(self.to_odk.drain(..));
        for _ in 0..lines {
            let _ = self.odk.borrow_mut().process_message();
            let w: Vec<u8> = self.far.borrow_mut().written.drain(..).collect();
            self.from_odk.extend(w);
        }
    }
}
impl Read for LoopPort {
    fn read(&mut self, buf: &mut [u8]) -> io::Result<usize> {
        self.pump();
        let mut n = 0;
        while n < buf.len() { match self.from_odk.pop_front() { Some(b) => { buf[n] = b; n += 1; } None => break } }
        Ok(n)
    }
}
impl Write for LoopPort {
    fn write(&mut self, buf: &[u8]) -> io::Result<usize> { self.to_odk.extend_from_slice(buf); Ok(buf.len()) }
    fn flush(&mut self) -> io::Result<()> { Ok(()) }
}
impl SerialDevice for LoopPort {
    type Settings = PortSettings;
    fn read_settings(&self) -> serial_core::Result<PortSettings> { Ok(self.settings) }
    fn write_settings(&mut self, s: &PortSettings) -> serial_core::Result<()> { self.settings = *s; Ok(()) }
    fn timeout(&self) -> Duration { Duration::from_secs(1) }
    fn set_timeout(&mut self, _: Duration) -> serial_core::Result<()> { Ok(()) }
    fn set_rts(&mut self, _: bool) -> serial_core::Result<()> { Ok(()) }
    fn set_dtr(&mut self, _: bool) -> serial_core::Result<()> { Ok(()) }
    fn read_cts(&mut self) -> serial_core::Result<bool> { Ok(false) }
    fn read_dsr(&mut self) -> serial_core::Result<bool> { Ok(false) }
    fn read_ri(&mut self) -> serial_core::Result<bool> { Ok(false) }
    fn read_cd(&mut self) -> serial_core::Result<bool> { Ok(false) }
}

pub fn search_serial_path(rng: &mut Rng) -> Option<Cex> {
    for (ti, style) in [(5usize, PageFlipStyle::Manual), (4usize, PageFlipStyle::Automatic)] {
        let t = crate::refspec::ALL_TYPES[ti];
        let own = Address(0x0102);
        // direct path
        let direct = Rc::new(RefCell::new(VirtualSignBus::new(vec![VirtualSign::new(own, style)])));
        let sd = Sign::new(direct.clone(), own, t);
        // serial path: controller -> serial bus -> byte stream -> ODK bridge -> virtual bus
        let remote = Rc::new(RefCell::new(VirtualSignBus::new(vec![VirtualSign::new(own, style)])));
        let far = Rc::new(RefCell::new(ScriptPort::new(b"")));
        let odk = Rc::new(RefCell::new(Odk::try_new(SharedPort(far.clone()), SharedBus(remote.clone(), Rc::new(RefCell::new(0)))).unwrap()));
        let lp = LoopPort { to_odk: vec![], from_odk: VecDeque::new(), far: far.clone(), odk: odk.clone(), settings: settings() };
        let serial = Rc::new(RefCell::new(SerialSignBus::try_new(lp).unwrap()));
        let ss = Sign::new(serial.clone(), own, t);
        let mut page = sd.create_page(PageId(1));
        for i in 0..12 { let (w, h) = (page.width(), page.height()); page.set_pixel((rng.next() as u32) % w, (i * 7 + 1) % h, true); }
        let pages = vec![page];
        let flush = |_: ()| {
            // hand any still-unprocessed one-way messages to the bridge (the controller's port is private: a dummy query does it)
            use flipdot_core::SignBus;
            let _ = serial.borrow_mut().process_message(Message::QueryState(Address(0xFFFE)));
            let _ = direct.borrow_mut().process_message(Message::QueryState(Address(0xFFFE)));
        };
        let steps: Vec<(&str, Box<dyn Fn(&Sign) -> String>)> = vec![
            ("configure", Box::new(|s: &Sign| format!("{:?}", s.configure().map_err(|e| e.to_string())))),
            ("send_pages", Box::new(|s: &Sign| format!("{:?}", s.send_pages(&pages).map_err(|e| e.to_string())))),
            ("show", Box::new(|s: &Sign| format!("{:?}", s.show_loaded_page().map_err(|e| e.to_string())))),
            ("load_next", Box::new(|s: &Sign| format!("{:?}", s.load_next_page().map_err(|e| e.to_string())))),
            ("shut_down", Box::new(|s: &Sign| format!("{:?}", s.shut_down().map_err(|e| e.to_string())))),
            ("reconfigure", Box::new(|s: &Sign| format!("{:?}", s.configure_if_needed().map_err(|e| e.to_string())))),
        ];
        for (name, op) in &steps {
            let input = format!("serial path vs direct path: {:?} {:?} step {}", t, style, name);
            let rd = op(&sd);
            let rs = match catch_unwind(AssertUnwindSafe(|| op(&ss))) { Ok(x) => x, Err(_) => return Some(Cex { domain: "serial-path", input, expected: rd, actual: "panic".into() }) };
            flush(());
            let (sig_d, sig_s) = (sign_sig(&direct.borrow()), sign_sig(&remote.borrow()));
            if rd.starts_with("Ok") != rs.starts_with("Ok") || rd.starts_with("Ok") && rd != rs || sig_d != sig_s {
                return Some(Cex { domain: "serial-path", input, expected: format!("{} / sign {}", rd, &sig_d[..sig_d.len().min(60)]), actual: format!("{} / sign {}", rs, &sig_s[..sig_s.len().min(60)]) });
            }
        }
    }
    None
}

// ---------------------------------------------------------------- C14: a bus of several virtual signs against each sign alone
/// Random conversations on a bus of 1..4 virtual signs with distinct addresses and mixed flip styles, with transfers to
/// several signs interleaved, addresses that coincide with chunk offsets / chunk counts (0, 1, 16, 32) and messages for
/// absent addresses. Oracle = the property itself: every sign of the bus ends in exactly the state the same sign reaches
/// when it is given the same messages alone, and the bus's reply is the reply of the one sign that answers.
pub fn search_bus(rng: &mut Rng, rounds: usize) -> Option<Cex> {
    use flipdot_core::SignBus;
    let pool: [u16; 8] = [0, 1, 3, 6, 16, 32, 0x7F, 0xFFFF];
    let types = [SignType::Max3000Side90x7, SignType::Max3000Rear30x10, SignType::HorizonFront160x16, SignType::HorizonDash40x12];
    let ops = [Operation::ReceiveConfig, Operation::ReceivePixels, Operation::ShowLoadedPage, Operation::LoadNextPage, Operation::StartReset, Operation::FinishReset];
    for _ in 0..rounds {
        let k = 1 + rng.below(4) as usize;
        let mut addrs: Vec<u16> = Vec::new();
        while addrs.len() < k {
            let a = pool[rng.below(8) as usize];
            if !addrs.contains(&a) { addrs.push(a); }
        }
        let mk = |i: usize, a: u16| VirtualSign::new(Address(a), if (i + a as usize) % 2 == 0 { PageFlipStyle::Manual } else { PageFlipStyle::Automatic });
        let mut bus = VirtualSignBus::new(addrs.iter().enumerate().map(|(i, a)| mk(i, *a)));
        let mut alone: Vec<VirtualSign<'static>> = addrs.iter().enumerate().map(|(i, a)| mk(i, *a)).collect();
        let mut history = String::new();
        for step in 0..40 {
            let a = if rng.below(6) == 0 { Address(pool[rng.below(8) as usize]) } else { Address(addrs[rng.below(k as u64) as usize]) };
            let m: Message<'static> = match rng.below(12) {
                0 => Message::Hello(a),
                1 => Message::QueryState(a),
                2 | 3 => Message::RequestOperation(a, ops[rng.below(2) as usize]),
                4 => Message::RequestOperation(a, ops[rng.below(6) as usize]),
                5 | 6 => Message::SendData(Offset(0), Data::try_new(types[rng.below(4) as usize].to_bytes().to_vec()).unwrap()),
                7 => Message::SendData(Offset(16 * rng.below(4) as u16), Data::try_new((0..16).map(|_| rng.next() as u8).collect::<Vec<u8>>()).unwrap()),
                8 | 9 => Message::DataChunksSent(ChunkCount(rng.below(4) as u16)),
                10 => Message::PixelsComplete(a),
                _ => Message::Goodbye(a),
            };
            history.push_str(&format!("{:?}; ", m));
            let input = format!("bus of signs {:?}, step {}: [{}]", addrs, step, history);
            let got = match catch_unwind(AssertUnwindSafe(|| bus.process_message(m.clone()))) {
                Ok(Ok(r)) => r,
                Ok(Err(e)) => return Some(Cex { domain: "bus", input, expected: "the virtual bus never fails".into(), actual: e.to_string() }),
                Err(_) => return Some(Cex { domain: "bus", input, expected: "no panic".into(), actual: "panic".into() }),
            };
            let mut want: Option<Message<'static>> = None;
            for s in alone.iter_mut() {
                if let Some(r) = s.process_message(&m) {
                    if want.is_none() { want = Some(r); }
                }
            }
            if got != want {
                return Some(Cex { domain: "bus", input, expected: format!("reply {:?} (what the addressed sign alone replies)", want), actual: format!("{:?}", got) });
            }
            for i in 0..k {
                if *bus.sign(i) != alone[i] {
                    return Some(Cex { domain: "bus", input, expected: format!("sign {:#06x} as when driven alone: {:?}", addrs[i], alone[i]).chars().take(600).collect(),
                                      actual: format!("{:?}", bus.sign(i)).chars().take(600).collect() });
                }
            }
        }
    }
    None
}
