//! regexeq <pattern-file-A> <pattern-file-B>
//! Decides whether two regex patterns (regex::bytes::Regex syntax and defaults: unicode on, utf8 off)
//! accept the same set of byte strings under `Regex::is_match` (unanchored search), by walking the
//! product of their dense DFAs over all 256 byte values; prints a shortest distinguishing string if not.
//! Also compares the capture-group skeleton (names, order, fixed widths).
//! Output: one JSON object on stdout.
use regex_automata::dfa::{dense, Automaton, StartKind};
use regex_automata::util::primitives::StateID;
use regex_automata::util::start::Config as StartConfig;
use regex_automata::util::syntax;
use regex_automata::Anchored;
use regex_syntax::hir::{Hir, HirKind};
use std::collections::{HashMap, VecDeque};

fn build(pat: &str) -> Result<dense::DFA<Vec<u32>>, String> {
    dense::Builder::new()
        .configure(dense::Config::new().start_kind(StartKind::Unanchored).minimize(false))
        .syntax(syntax::Config::new().unicode(true).utf8(false))
        .build(pat)
        .map_err(|e| format!("{}", e))
}

#[derive(Clone, Copy, PartialEq, Eq, Hash)]
enum S {
    Acc,
    Dead,
    St(StateID),
}

fn step(d: &dense::DFA<Vec<u32>>, s: S, b: u8) -> S {
    match s {
        S::Acc => S::Acc,
        S::Dead => S::Dead,
        S::St(id) => {
            let n = d.next_state(id, b);
            if d.is_match_state(n) {
                S::Acc
            } else if d.is_dead_state(n) {
                S::Dead
            } else {
                S::St(n)
            }
        }
    }
}

fn accepts_at_end(d: &dense::DFA<Vec<u32>>, s: S) -> bool {
    match s {
        S::Acc => true,
        S::Dead => false,
        S::St(id) => d.is_match_state(d.next_eoi_state(id)),
    }
}

fn start(d: &dense::DFA<Vec<u32>>) -> S {
    let id = d.start_state(&StartConfig::new().anchored(Anchored::No)).expect("start state");
    if d.is_match_state(id) {
        S::Acc
    } else if d.is_dead_state(id) {
        S::Dead
    } else {
        S::St(id)
    }
}

/// skeleton of the top-level concatenation: (capture name or "", min_len, max_len)
fn skeleton(pat: &str) -> Result<Vec<(String, usize, Option<usize>)>, String> {
    let hir = regex_syntax::ParserBuilder::new().unicode(true).utf8(false).build().parse(pat).map_err(|e| format!("{}", e))?;
    fn entry(h: &Hir) -> (String, usize, Option<usize>) {
        let p = h.properties();
        let name = match h.kind() {
            HirKind::Capture(c) => c.name.as_ref().map(|n| n.to_string()).unwrap_or_else(|| format!("#{}", c.index)),
            _ => String::new(),
        };
        (name, p.minimum_len().unwrap_or(0), p.maximum_len())
    }
    Ok(match hir.kind() {
        HirKind::Concat(v) => v.iter().map(entry).collect(),
        _ => vec![entry(&hir)],
    })
}

fn esc(s: &[u8]) -> String {
    let mut o = String::new();
    for &b in s {
        if (32..127).contains(&b) && b != b'"' && b != b'\\' {
            o.push(b as char);
        } else {
            o.push_str(&format!("\\\\x{:02x}", b));
        }
    }
    o
}

fn main() {
    let a: Vec<String> = std::env::args().collect();
    let pa = std::fs::read_to_string(&a[1]).expect("read A");
    let pb = std::fs::read_to_string(&a[2]).expect("read B");
    let (da, db) = match (build(&pa), build(&pb)) {
        (Ok(x), Ok(y)) => (x, y),
        (Err(e), _) => {
            println!("{{\"status\":\"error\",\"which\":\"A\",\"error\":\"{}\"}}", esc(e.as_bytes()));
            std::process::exit(2)
        }
        (_, Err(e)) => {
            println!("{{\"status\":\"error\",\"which\":\"B\",\"error\":\"{}\"}}", esc(e.as_bytes()));
            std::process::exit(2)
        }
    };
    // product BFS
    let s0 = (start(&da), start(&db));
    let mut prev: HashMap<(S, S), Option<((S, S), u8)>> = HashMap::new();
    let mut q = VecDeque::new();
    prev.insert(s0, None);
    q.push_back(s0);
    let mut witness: Option<Vec<u8>> = None;
    let mut explored = 0usize;
    while let Some(cur) = q.pop_front() {
        explored += 1;
        if accepts_at_end(&da, cur.0) != accepts_at_end(&db, cur.1) {
            let mut w = Vec::new();
            let mut c = cur;
            while let Some(Some((p, b))) = prev.get(&c) {
                w.push(*b);
                c = *p;
            }
            w.reverse();
            witness = Some(w);
            break;
        }
        for b in 0..=255u8 {
            let n = (step(&da, cur.0, b), step(&db, cur.1, b));
            if !prev.contains_key(&n) {
                prev.insert(n, Some((cur, b)));
                q.push_back(n);
            }
        }
    }
    let (ska, skb) = (skeleton(&pa), skeleton(&pb));
    let groups_equal = match (&ska, &skb) {
        (Ok(x), Ok(y)) => x == y,
        _ => false,
    };
    let fmt_sk = |s: &Result<Vec<(String, usize, Option<usize>)>, String>| match s {
        Ok(v) => v.iter().map(|(n, a, b)| format!("[{}:{}..{}]", n, a, b.map(|x| x.to_string()).unwrap_or("inf".into()))).collect::<Vec<_>>().join(""),
        Err(e) => format!("error: {}", e),
    };
    match witness {
        None => println!(
            "{{\"status\":\"ok\",\"language_equal\":true,\"product_states\":{},\"groups_equal\":{},\"skeleton_a\":\"{}\",\"skeleton_b\":\"{}\"}}",
            explored, groups_equal, esc(fmt_sk(&ska).as_bytes()), esc(fmt_sk(&skb).as_bytes())
        ),
        Some(w) => {
            let hex: String = w.iter().map(|b| format!("{:02x}", b)).collect();
            println!(
                "{{\"status\":\"ok\",\"language_equal\":false,\"product_states\":{},\"witness_hex\":\"{}\",\"witness\":\"{}\",\"a_accepts\":{},\"groups_equal\":{},\"skeleton_a\":\"{}\",\"skeleton_b\":\"{}\"}}",
                explored, hex, esc(&w), {
                    // recompute acceptance of A on the witness
                    let mut s = start(&da);
                    for &b in &w { s = step(&da, s, b); }
                    accepts_at_end(&da, s)
                }, groups_equal, esc(fmt_sk(&ska).as_bytes()), esc(fmt_sk(&skb).as_bytes())
            )
        }
    }
}
