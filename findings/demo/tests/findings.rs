//! Native demonstrations of the genuine defects found on the pinned tree (dc54772).
//! Each test FAILS on the pinned tree and passes after the corresponding `fix:` commit.
use flipdot_core::*;
use flipdot_testing::*;

// C05/C04: a data chunk with 0 or 1 data bytes does not survive Message -> Frame -> Message.
#[test]
fn c05_short_send_data_roundtrip() {
    for n in 0..=2usize {
        let bytes = vec![0xABu8; n];
        let m = Message::SendData(Offset(0xFFFF), Data::try_new(bytes.clone()).unwrap());
        let f = Frame::from(m.clone());
        let wire = f.to_bytes_with_newline();
        let back = Message::from(Frame::from_bytes(&wire).unwrap());
        assert_eq!(m, back, "SendData with {} data bytes", n);
    }
}

fn configure(sign: &mut VirtualSign<'_>, cfg: &[u8]) {
    sign.process_message(&Message::RequestOperation(Address(1), Operation::ReceiveConfig));
    sign.process_message(&Message::SendData(Offset(0), Data::try_new(cfg.to_vec()).unwrap()));
    sign.process_message(&Message::DataChunksSent(ChunkCount(1)));
}

// C12a: a pixel transfer with a lost chunk panics in flush_pixels (`expect`).
#[test]
fn c12a_lost_chunk_does_not_panic() {
    let mut sign = VirtualSign::new(Address(1), PageFlipStyle::Manual);
    configure(&mut sign, SignType::Max3000Side90x7.to_bytes());
    sign.process_message(&Message::RequestOperation(Address(1), Operation::ReceivePixels));
    for i in 0..5u16 {
        sign.process_message(&Message::SendData(Offset(i * 16), Data::try_new(vec![0u8; 16]).unwrap()));
    }
    sign.process_message(&Message::DataChunksSent(ChunkCount(5)));
    let r = sign.process_message(&Message::QueryState(Address(1)));
    assert!(matches!(r, Some(Message::ReportState(Address(1), State::PixelsReceived | State::PixelsFailed))));
    assert!(sign.pages().is_empty());
}

// C12b: a Max3000-family configuration block whose four panel widths sum to more than 255 overflows u8.
#[test]
fn c12b_wide_config_does_not_overflow() {
    let mut sign = VirtualSign::new(Address(1), PageFlipStyle::Manual);
    let cfg = [0x04, 0x47, 0, 0x0F, 0x10, 0xFF, 0xFF, 0xFF, 0xFF, 0x10, 0, 0, 0, 0, 0, 0];
    configure(&mut sign, &cfg);
    let r = sign.process_message(&Message::QueryState(Address(1)));
    assert_eq!(r, Some(Message::ReportState(Address(1), State::ConfigReceived)));
}

// C12c: the 65536th data chunk since the last count message overflows the u16 chunk counter.
#[test]
fn c12c_many_chunks_do_not_overflow() {
    let mut sign = VirtualSign::new(Address(1), PageFlipStyle::Manual);
    configure(&mut sign, SignType::Max3000Side90x7.to_bytes());
    sign.process_message(&Message::RequestOperation(Address(1), Operation::ReceivePixels));
    for _ in 0..65536u32 {
        // offset 0 each time: the previous one-chunk buffer is flushed (and, being short, dropped)
        sign.process_message(&Message::SendData(Offset(0), Data::try_new(vec![0u8; 16]).unwrap()));
    }
    sign.process_message(&Message::DataChunksSent(ChunkCount(0)));
    let r = sign.process_message(&Message::QueryState(Address(1)));
    assert!(matches!(r, Some(Message::ReportState(Address(1), State::PixelsReceived | State::PixelsFailed))));
}

// C14/C13: an unaddressed DataChunksSent changes the stored pages of a sign that is NOT in a receiving state:
// a transfer abandoned by StartReset leaves a complete page in the buffer; a later chunk-count message (which on a
// shared bus belongs to another sign's transfer) flushes it into pages() while the sign sits in ReadyToReset.
#[test]
fn c14_idle_sign_untouched_by_chunk_count() {
    let mut sign = VirtualSign::new(Address(1), PageFlipStyle::Manual);
    configure(&mut sign, SignType::Max3000Dash30x7.to_bytes());
    sign.process_message(&Message::RequestOperation(Address(1), Operation::ReceivePixels));
    for i in 0..3u16 {
        sign.process_message(&Message::SendData(Offset(i * 16), Data::try_new(vec![0u8; 16]).unwrap()));
    }
    sign.process_message(&Message::RequestOperation(Address(1), Operation::StartReset));
    assert_eq!(sign.state(), State::ReadyToReset);
    let before = sign.pages().len();
    sign.process_message(&Message::DataChunksSent(ChunkCount(7))); // some other sign's transfer ends
    assert_eq!(sign.state(), State::ReadyToReset);
    assert_eq!(sign.pages().len(), before, "stored pages of an idle sign changed by an unaddressed message");
}
