//! Native demonstrations of the genuine defects found on the pinned tree (dc54772).
//! Each test FAILS on the pinned tree and passes after the corresponding `fix:` commit.
use flipdot_core::*;
use flipdot_testing::*;

// C05/C04: a data chunk with 0 or 1 data bytes does not survive Message -> Frame -> Message.
#[test]
fn c05_short_send_data_roundtrip() {
    for n in 0..=2usize {
        let bytes = vec![0xABu8; n];
        let m = Message::SendData(Offset(0xFFFF), Data::try_new(bytes.clone()).unwrap());
        let f = Frame::from(m.clone());
        let wire = f.to_bytes_with_newline();
        let back = Message::from(Frame::from_bytes(&wire).unwrap());
        assert_eq!(m, back, "SendData with {} data bytes", n);
    }
}

fn configure(sign: &mut VirtualSign<'_>, cfg: &[u8]) {
    sign.process_message(&Message::RequestOperation(Address(1), Operation::ReceiveConfig));
    sign.process_message(&Message::SendData(Offset(0), Data::try_new(cfg.to_vec()).unwrap()));
    sign.process_message(&Message::DataChunksSent(ChunkCount(1)));
}

// C12a: a pixel transfer with a lost chunk panics in flush_pixels (`expect`).
#[test]
fn c12a_lost_chunk_does_not_panic() {
    let mut sign = VirtualSign::new(Address(1), PageFlipStyle::Manual);
    configure(&mut sign, SignType::Max3000Side90x7.to_bytes());
    sign.process_message(&Message::RequestOperation(Address(1), Operation::ReceivePixels));
    for i in 0..5u16 {
        sign.process_message(&Message::SendData(Offset(i * 16), Data::try_new(vec![0u8; 16]).unwrap()));
    }
    sign.process_message(&Message::DataChunksSent(ChunkCount(5)));
    let r = sign.process_message(&Message::QueryState(Address(1)));
    assert!(matches!(r, Some(Message::ReportState(Address(1), State::PixelsReceived | State::PixelsFailed))));
    assert!(sign.pages().is_empty());
}

// C12b: a Max3000-family configuration block whose four panel widths sum to more than 255 overflows u8.
#[test]
fn c12b_wide_config_does_not_overflow() {
    let mut sign = VirtualSign::new(Address(1), PageFlipStyle::Manual);
    let cfg = [0x04, 0x47, 0, 0x0F, 0x10, 0xFF, 0xFF, 0xFF, 0xFF, 0x10, 0, 0, 0, 0, 0, 0];
    configure(&mut sign, &cfg);
    let r = sign.process_message(&Message::QueryState(Address(1)));
    assert_eq!(r, Some(Message::ReportState(Address(1), State::ConfigReceived)));
}

// C12c: the 65536th data chunk since the last count message overflows the u16 chunk counter.
#[test]
fn c12c_many_chunks_do_not_overflow() {
    let mut sign = VirtualSign::new(Address(1), PageFlipStyle::Manual);
    configure(&mut sign, SignType::Max3000Side90x7.to_bytes());
    sign.process_message(&Message::RequestOperation(Address(1), Operation::ReceivePixels));
    for _ in 0..65536u32 {
        // offset 0 each time: the previous one-chunk buffer is flushed (and, being short, dropped)
        sign.process_message(&Message::SendData(Offset(0), Data::try_new(vec![0u8; 16]).unwrap()));
    }
    sign.process_message(&Message::DataChunksSent(ChunkCount(0)));
    let r = sign.process_message(&Message::QueryState(Address(1)));
    assert!(matches!(r, Some(Message::ReportState(Address(1), State::PixelsReceived | State::PixelsFailed))));
}

// C14/C13: an unaddressed DataChunksSent changes the stored pages of a sign that is NOT in a receiving state:
// a transfer abandoned by StartReset leaves a complete page in the buffer; a later chunk-count message (which on a
// shared bus belongs to another sign's transfer) flushes it into pages() while the sign sits in ReadyToReset.
#[test]
fn c14_idle_sign_untouched_by_chunk_count() {
    let mut sign = VirtualSign::new(Address(1), PageFlipStyle::Manual);
    configure(&mut sign, SignType::Max3000Dash30x7.to_bytes());
    sign.process_message(&Message::RequestOperation(Address(1), Operation::ReceivePixels));
    for i in 0..3u16 {
        sign.process_message(&Message::SendData(Offset(i * 16), Data::try_new(vec![0u8; 16]).unwrap()));
    }
    sign.process_message(&Message::RequestOperation(Address(1), Operation::StartReset));
    assert_eq!(sign.state(), State::ReadyToReset);
    let before = sign.pages().len();
    sign.process_message(&Message::DataChunksSent(ChunkCount(7))); // some other sign's transfer ends
    assert_eq!(sign.state(), State::ReadyToReset);
    assert_eq!(sign.pages().len(), before, "stored pages of an idle sign changed by an unaddressed message");
}

// C08: a configuration block whose family/id bytes name a supported type but whose size fields say otherwise made the
// virtual sign record that type together with the other size. configure_if_needed trusts a ready sign that records the
// requested type, and the pages sent afterwards were silently dropped as malformed although send_pages returned Ok.
#[test]
fn c08_recorded_type_agrees_with_recorded_size() {
    let mut sign = VirtualSign::new(Address(3), PageFlipStyle::Manual);
    // family 04, id 47 (Max3000Front112x16) but panel widths 42+CE+F3+EC = 751 and height 0x30 = 48
    let cfg = [0x04, 0x47, 0x49, 0xF7, 0x30, 0x42, 0xCE, 0xF3, 0xEC, 0x91, 0xEA, 0xD5, 0xAC, 0x8D, 0x2E, 0x60];
    sign.process_message(&Message::RequestOperation(Address(3), Operation::ReceiveConfig));
    sign.process_message(&Message::SendData(Offset(0), Data::try_new(cfg.to_vec()).unwrap()));
    sign.process_message(&Message::DataChunksSent(ChunkCount(1)));
    assert_eq!(sign.state(), State::ConfigReceived);
    if let Some(t) = sign.sign_type() {
        // whoever trusts the recorded type must be able to send pages of that type's size
        sign.process_message(&Message::RequestOperation(Address(3), Operation::ReceivePixels));
        let page = Page::new(PageId(1), t.dimensions().0, t.dimensions().1);
        let mut n = 0u16;
        for (i, chunk) in page.as_bytes().chunks(16).enumerate() {
            sign.process_message(&Message::SendData(Offset((i * 16) as u16), Data::try_new(chunk.to_vec()).unwrap()));
            n += 1;
        }
        sign.process_message(&Message::DataChunksSent(ChunkCount(n)));
        assert_eq!(sign.pages().len(), 1, "a page of the recorded type's size was dropped");
    }
}
