#!/usr/bin/env python3
"""tools/kani_one.py <package> <harness> [extra kani args] : run one harness with regular output into $OUT (default /tmp/kani_one.out)."""
import sys, os, subprocess, time, re
sys.path.insert(0, os.path.join(os.path.dirname(os.path.abspath(__file__)), '..', 'lib'))
import kani
pkg, h = sys.argv[1], sys.argv[2]
outp = os.environ.get('OUT', '/tmp/kani_one.out')
env = dict(os.environ, CARGO_NET_OFFLINE='true', CARGO_TARGET_DIR=os.path.join(kani.CACHE, 'kani-target-' + os.environ.get('KANI_SLOT', 'main')))
with kani.Scratch() as sc:
    t0 = time.time()
    with open(outp, 'w') as f:
        p = subprocess.Popen(['cargo', 'kani', '-p', pkg, '-Z', 'function-contracts', '-Z', 'stubbing', '--harness', h] + sys.argv[3:], cwd=sc.repo, env=env, stdout=f, stderr=subprocess.STDOUT)
        try:
            p.wait(timeout=int(os.environ.get('TIMEOUT', '3600')))
        except subprocess.TimeoutExpired:
            subprocess.run(['pkill', '-P', str(p.pid)])
            p.kill()
            subprocess.run(['pkill', '-f', h + '.out'])
            print('TIMEOUT')
    print('wall %.1f -> %s' % (time.time() - t0, outp))
