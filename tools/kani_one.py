#!/usr/bin/env python3
"""tools/kani_one.py <package> <harness> [extra kani args] : run one harness with regular output, print the tail."""
import sys, os, subprocess, time
sys.path.insert(0, os.path.join(os.path.dirname(os.path.abspath(__file__)), '..', 'lib'))
import kani
pkg, h = sys.argv[1], sys.argv[2]
env = dict(os.environ, CARGO_NET_OFFLINE='true', CARGO_TARGET_DIR=os.path.join(kani.CACHE, 'kani-target-' + os.environ.get('KANI_SLOT', 'main')))
with kani.Scratch() as sc:
    t0 = time.time()
    p = subprocess.run(['cargo', 'kani', '-p', pkg, '-Z', 'function-contracts', '-Z', 'stubbing', '--harness', h] + sys.argv[3:], cwd=sc.repo, env=env, capture_output=True, text=True, timeout=int(os.environ.get('TIMEOUT', '3600')))
    out = p.stdout + p.stderr
    lines = [l for l in out.split('\n') if 'Status: SUCCESS' not in l]
    # drop the long list of successful checks
    keep = []
    for i, l in enumerate(out.split('\n')):
        keep.append(l)
    txt = '\n'.join(keep)
    import re
    txt = re.sub(r'Check \d+: [^\n]*\n\t - Status: SUCCESS\n\t - Description: [^\n]*\n\t - Location: [^\n]*\n\n', '', txt)
    print(txt[-int(os.environ.get('TAIL', '5000')):])
    print('wall %.1f' % (time.time() - t0))
