#!/usr/bin/env python3
"""tools/confirm_seed.py <PROP> <m1|m2> : confirm a seeded change in a scratch worktree of /repo (outside /repo and /verif):
patch applies to HEAD; the whole existing suite passes with it; the demonstration fails with it and passes without it.
Writes /verif/seeded/<PROP>-<mk>/{patch.diff,demo.rs,meta.json}. The worktree is removed afterwards."""
import json
import os
import re
import shutil
import subprocess
import sys
import time

prop, mk = sys.argv[1], sys.argv[2]
src = '/tmp/seed/%s.out%s' % (prop, ('2' if mk in ('m3', 'm4') else '3' if mk in ('m5', 'm6') else '5' if mk in ('m7', 'm8') else '6' if mk in ('m9', 'm10') else ''))
patch = os.path.join(src, mk + '.patch.diff')
demo = os.path.join(src, mk + '.demo.rs')
meta_txt = open(os.path.join(src, mk + '.meta.txt')).read() if os.path.exists(os.path.join(src, mk + '.meta.txt')) else ''
wt = '/tmp/confirm/%s-%s' % (prop, mk)
env = dict(os.environ, CARGO_NET_OFFLINE='true', CARGO_TARGET_DIR='/tmp/confirm/target')
os.makedirs('/tmp/confirm', exist_ok=True)


def sh(cmd, cwd=wt, timeout=1800):
    p = subprocess.run(cmd, shell=True, cwd=cwd, env=env, capture_output=True, text=True, timeout=timeout)
    return p.returncode, (p.stdout + p.stderr)


subprocess.run('git -C /repo worktree remove --force %s' % wt, shell=True, capture_output=True)
rc, out = sh('git -C /repo worktree add -q --detach %s HEAD' % wt, cwd='/')
res = {'property': prop, 'mutation': mk, 'repo_head': subprocess.run('git -C /repo rev-parse --short HEAD', shell=True, capture_output=True, text=True).stdout.strip()}
try:
    first = open(demo).readline()
    m = re.search(r'copy to:\s*(\S+)', first)
    dest = m.group(1)
    test_name = os.path.splitext(os.path.basename(dest))[0]
    pkg = 'flipdot-core' if dest.startswith('libs/core') else 'flipdot-testing' if dest.startswith('libs/testing') else 'flipdot-serial' if dest.startswith('libs/serial') else 'flipdot'
    rc, out = sh('git apply %s' % patch)
    if rc != 0:
        rc, out = sh('git apply -3 %s' % patch)
        res['applied_with_3way'] = True
    res['patch_applies'] = rc == 0
    if rc != 0:
        res['error'] = out[-800:]
        raise SystemExit
    # regenerate the patch against the current HEAD (identical unless a 3-way merge was needed)
    rc, cur = sh('git diff')
    rc, out = sh('cargo test --workspace --offline 2>&1 | grep -E "^test result|FAILED|panicked|error(\\[|:)" | head -40')
    fails = [l for l in out.split('\n') if 'FAILED' in l or l.startswith('error')]
    passed = sum(int(x) for x in re.findall(r'(\d+) passed', out))
    res['suite_with_change'] = {'passed': passed, 'failures': fails[:5]}
    os.makedirs(os.path.dirname(os.path.join(wt, dest)), exist_ok=True)
    shutil.copyfile(demo, os.path.join(wt, dest))
    cmd = 'cargo test -p %s --offline --test %s 2>&1 | grep -E "^test |test result|error" | head -30' % (pkg, test_name)
    rc, out = sh(cmd)
    res['demo_with_change'] = out.strip().split('\n')[-1]
    res['demo_fails_with_change'] = 'FAILED' in out or 'failed' in out
    sh('git apply -R %s' % patch if not res.get('applied_with_3way') else 'git checkout -- src libs')
    rc, out = sh(cmd)
    res['demo_without_change'] = out.strip().split('\n')[-1]
    res['demo_passes_without_change'] = 'test result: ok' in out
    res['demo_cmd'] = 'cp demo.rs %s && cargo test -p %s --offline --test %s' % (dest, pkg, test_name)
    res['confirmed'] = bool(res['patch_applies'] and not fails and passed >= 63 and res['demo_fails_with_change'] and res['demo_passes_without_change'])
    outdir = '/verif/seeded/%s-%s' % (prop, mk)
    os.makedirs(outdir, exist_ok=True)
    open(os.path.join(outdir, 'patch.diff'), 'w').write(cur)
    shutil.copyfile(demo, os.path.join(outdir, 'demo.rs'))
    res['needs_to_manifest'] = meta_txt
    res['confirmed_at'] = time.strftime('%Y-%m-%dT%H:%M:%S')
    json.dump(res, open(os.path.join(outdir, 'meta.json'), 'w'), indent=1)
finally:
    subprocess.run('git -C /repo worktree remove --force %s' % wt, shell=True, capture_output=True)
print(prop, mk, 'confirmed' if res.get('confirmed') else 'NOT CONFIRMED', json.dumps({k: v for k, v in res.items() if k not in ('needs_to_manifest',)})[:400])
