#!/usr/bin/env python3
"""tools/kani_try.py <package> <out-file> <harness>... : run harnesses on a scratch copy of /repo, write a summary."""
import sys, os, time
sys.path.insert(0, os.path.join(os.path.dirname(os.path.abspath(__file__)), '..', 'lib'))
import kani
pkg, outp, hs = sys.argv[1], sys.argv[2], sys.argv[3:]
slot = os.environ.get('KANI_SLOT', 'main')
t0 = time.time()
with open(outp, 'w') as out:
    try:
        with kani.Scratch() as sc:
            res, meta = kani.run_harnesses(sc, pkg, hs, jobs=int(os.environ.get('JOBS', '8')), timeout=int(os.environ.get('TIMEOUT', '7200')), target_slot=slot, isolated=tuple(os.environ.get('ISOLATED', '').split()))
            for k, v in res.items():
                print(k, v['status'], 'failed', v.get('failed'), 'checks', v.get('checks'), 'covers', v['cover_sat'], '/', v['cover_total'], 'time', v['time_s'], file=out)
                for c in v['failed_checks']:
                    print('     FAILED CHECK:', c['desc'][:150], c['file'], c['line'], c['fn'], file=out)
                if v['status'] == 'UNKNOWN':
                    print(v['raw'][-1500:], file=out)
            missing = [h for h in hs if h not in res]
            if missing:
                print('MISSING', missing, file=out)
                print(meta['tail'], file=out)
            print('wall', round(meta['wall_s'], 1), file=out)
    except Exception as e:
        print('EXC', str(e)[-6000:], file=out)
print('done in %.0fs' % (time.time() - t0))
