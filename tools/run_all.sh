#!/bin/sh
# tools/run_all.sh [tier] [ids...]: run checks sequentially, summarise.
cd "$(dirname "$0")/.."
tier=${1:-quick}; shift
ids="$@"
[ -z "$ids" ] && ids=$(python3 -c "import json;print(' '.join(c['property_id'] for c in json.load(open('MANIFEST.json'))['checks']))")
for id in $ids; do
  s=$(date +%s)
  ./check $id --tier $tier > /tmp/check_$id.log 2>&1; rc=$?
  e=$(date +%s)
  echo "$id rc=$rc $((e-s))s $(tail -1 /tmp/check_$id.log | cut -c1-160)"
done
