#!/usr/bin/env python3
"""tools/seed_matrix.py [seed-dir-names...] : run the check of each seeded change's property against a scratch copy of
/repo with the change applied (VERIF_REPO), record the outcome in seeded/<name>/detection.json and print a table."""
import json, os, re, shutil, subprocess, sys, tempfile, time
ROOT = os.path.dirname(os.path.dirname(os.path.abspath(__file__)))
names = sys.argv[1:] or sorted(os.listdir(os.path.join(ROOT, 'seeded')))
harmless = {'harmless-page-divceil-rename': ['C06', 'C07'], 'harmless-frame-rename-locals': ['C01', 'C03'], 'harmless-message-reorder-arms': ['C04'],
            'harmless-vsign-refactor': ['C13', 'C14'], 'harmless-sign-refactor': ['C10'], 'harmless-serial-refactor': ['C16'], 'harmless-frame-io-refactor': ['C15', 'C02']}
extra = {'C08-m9': ['C13'], 'C08-m10': ['C09'], 'C16-m8': ['C15'], 'C17-m8': ['C04'], 'C08-m7': ['C13'], 'C08-m8': ['C10'], 'C13-m8': ['C14'], 'C14-m8': ['C13'], 'C14-m7': ['C13'], 'C05-m5': ['C15'], 'C05-m6': ['C15'], 'C16-m6': ['C15'], 'C17-m6': ['C15'], 'C18-m6': ['C04'], 'C12-m5': ['C19'], 'C19-m5': ['C13'], 'C08-m5': ['C13'], 'C08-m6': ['C13'], 'C02-m5': ['C15'], 'C08-m1': ['C10'], 'C08-m2': ['C10'], 'C08-m3': ['C13'], 'C08-m4': ['C10'], 'C02-m4': ['C15'], 'C05-m1': ['C01'], 'C05-m2': ['C01'], 'C19-m2': ['C13'], 'C16-m2': ['C15'], 'C17-m1': ['C16'], 'C17-m2': ['C15']}
for name in names:
    d = os.path.join(ROOT, 'seeded', name)
    if not os.path.exists(os.path.join(d, 'patch.diff')):
        continue
    pid = name.split('-')[0]
    import importlib
    sys.path.insert(0, os.path.join(ROOT, 'lib'))
    import plan
    importlib.reload(plan)
    pids = [p for p in ([pid] + extra.get(name, []) if name not in harmless else harmless[name]) if p in plan.PROPS]
    if not pids:
        print('%-8s (no check registered for %s yet)' % (name, pid)); continue
    tmp = os.environ.get('SEED_TMP', '/tmp/seedrepo')
    shutil.rmtree(tmp, ignore_errors=True)
    os.makedirs(tmp)
    try:
        subprocess.run(['rsync', '-a', '--exclude', '/target', '/repo/', tmp + '/'], check=True)
        r = subprocess.run(['git', 'apply', os.path.join(d, 'patch.diff')], cwd=tmp, capture_output=True, text=True)
        if r.returncode != 0:
            print('%-8s patch does not apply: %s' % (name, r.stderr[:200])); continue
        results = {}
        for p in pids:
            t0 = time.time()
            env = dict(os.environ, VERIF_REPO=tmp, VERIF_NO_EVIDENCE='1', VERIF_KANI_SLOT=os.environ.get('VERIF_KANI_SLOT', os.path.basename(tmp)))
            q = subprocess.run([os.path.join(ROOT, 'check'), p, '--tier', 'quick'], cwd=ROOT, env=env, capture_output=True, text=True)
            out = q.stdout
            viol = [l for l in out.split('\n') if l.startswith('VIOLATION')]
            failed = [l.split()[1] for l in out.split('\n') if l.startswith('FAILED')]
            und = [l for l in out.split('\n') if l.startswith('UNDECIDED')]
            results[p] = {'exit': q.returncode, 'violations': viol, 'failed_obligations': failed, 'undecided': und[:1], 'wall_s': round(time.time() - t0, 1)}
            print('%-8s check %s: exit %d %s %s (%.0fs)' % (name, p, q.returncode, ('FALSE-ALARM' if name in harmless else 'DETECTED') if q.returncode == 1 else ('UNDECIDED' if q.returncode == 2 else 'missed'), ','.join(failed)[:110], time.time() - t0), flush=True)
        json.dump({'seed': name, 'checks': results, 'detected_by': [p for p in results if results[p]['exit'] == 1], 'at': time.strftime('%Y-%m-%dT%H:%M:%S')},
                  open(os.path.join(d, 'detection.json'), 'w'), indent=1)
    finally:
        shutil.rmtree(tmp, ignore_errors=True)
