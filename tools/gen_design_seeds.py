#!/usr/bin/env python3
"""Regenerate the seeded-changes table inside DESIGN.md (between the SEEDS markers) from seeded/*/detection.json."""
import os, subprocess, sys
ROOT = os.path.dirname(os.path.dirname(os.path.abspath(__file__)))
p = os.path.join(ROOT, 'DESIGN.md')
s = open(p).read()
a = s.index('<!-- SEEDS-BEGIN -->') + len('<!-- SEEDS-BEGIN -->')
b = s.index('<!-- SEEDS-END -->')
t = subprocess.run([sys.executable, os.path.join(ROOT, 'tools', 'seed_report.py')], capture_output=True, text=True, check=True).stdout
open(p, 'w').write(s[:a] + '\n' + t + s[b:])
print('DESIGN.md: seeded table regenerated (%d lines)' % t.count('\n'))
