#!/bin/sh
# usage: tools/withpatch.sh <patch.diff> <command...> : apply a seeded change to /repo, run the command, always undo.
p="$1"; shift
git -C /repo apply "$p" || { echo "patch does not apply"; exit 3; }
"$@"; rc=$?
git -C /repo checkout -- . ; git -C /repo clean -fdq -e target
exit $rc
