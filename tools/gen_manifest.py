#!/usr/bin/env python3
"""Regenerate /verif/MANIFEST.json from lib/plan.py (checks) and lib/manifest_meta.py (texts)."""
import json
import os
import sys

ROOT = os.path.dirname(os.path.dirname(os.path.abspath(__file__)))
sys.path.insert(0, os.path.join(ROOT, 'lib'))
import plan            # noqa: E402
import manifest_meta   # noqa: E402

ids = [json.loads(l)['id'] for l in open(os.path.join(ROOT, 'properties.jsonl'))]
checks = []
for pid in ids:
    if pid not in plan.PROPS or pid in manifest_meta.NOT_APPLICABLE:
        continue
    meta = manifest_meta.CHECKS[pid]
    checks.append({
        'property_id': pid,
        'quick_cmd': './check %s --tier quick' % pid,
        'thorough_cmd': './check %s --tier thorough' % pid,
        'evidence_file': '/verif/evidence/%s.json' % pid,
        'replay_cmd_template': './check %s --replay {path}' % pid,
        'engine': meta['engine'],
        'level_claimed': {'category': plan.PROPS[pid]['level'], 'text': meta['text'], 'design_ref': meta['design_ref']},
        'level_note': meta['note'],
        'technique': meta['technique'],
    })
na = [{'property_id': pid, 'reason': manifest_meta.NOT_APPLICABLE.get(pid, 'check not built yet (work in progress)')}
      for pid in ids if pid not in plan.PROPS or pid in manifest_meta.NOT_APPLICABLE]
m = {
    'version': 1,
    'setup_cmd': './setup.sh',
    'hooks': {
        'guard': 'kani (the cfg that cargo-kani sets); no hook is committed to /repo',
        'enable': './check <ID> copies /repo\'s working tree to a scratch directory and appends `#[cfg(kani)] mod verif_kani_*;` harness modules (and two #[cfg_attr(kani, kani::requires/ensures)] lines above frame.rs::checksum) there; Verus units are extracted from /repo\'s files on every run',
        'baseline_off_cmd': 'cd /repo && cargo test --workspace --no-fail-fast --offline',
        'source_commits': [],
        'add_only': True,
    },
    'engines': manifest_meta.ENGINES,
    'checks': checks,
    'not_applicable': na,
    'notes': manifest_meta.NOTES,
}
json.dump(m, open(os.path.join(ROOT, 'MANIFEST.json'), 'w'), indent=1)
print('MANIFEST.json: %d checks, %d not_applicable' % (len(checks), len(na)))
