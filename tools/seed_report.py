#!/usr/bin/env python3
"""Print a markdown table of the seeded changes and which checks catch them (from seeded/*/meta.json + detection.json)."""
import json, os, sys
ROOT = os.path.dirname(os.path.dirname(os.path.abspath(__file__)))
rows = []
for name in sorted(os.listdir(os.path.join(ROOT, 'seeded'))):
    d = os.path.join(ROOT, 'seeded', name)
    det = os.path.join(d, 'detection.json')
    meta = os.path.join(d, 'meta.json')
    what = ''
    if os.path.exists(meta):
        m = json.load(open(meta))
        txt = (m.get('needs_to_manifest') or '').strip().split('\n')
        what = ' '.join(t.strip() for t in txt[:2])[:170]
    if not os.path.exists(det):
        rows.append('| %s | %s | (not run) | |' % (name, what))
        continue
    j = json.load(open(det))
    cells = []
    for p, r in j['checks'].items():
        verdict = {0: 'pass', 1: 'VIOLATION', 2: 'UNDECIDED'}.get(r['exit'], str(r['exit']))
        obl = ', '.join(o.split(':')[-1] for o in r['failed_obligations'])[:120]
        cells.append('%s: %s%s' % (p, verdict, (' (' + obl + ')') if obl else ''))
    rows.append('| %s | %s | %s |' % (name, what, '; '.join(cells)))
print('| seed | what it does | result of the check(s) |')
print('|---|---|---|')
print('\n'.join(rows))
