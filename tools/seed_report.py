#!/usr/bin/env python3
"""Print a markdown table of the seeded changes and which checks catch them (from seeded/*/meta.json + detection.json)."""
import json, os, re, sys
ROOT = os.path.dirname(os.path.dirname(os.path.abspath(__file__)))
rows = []
stats = {'seeds': 0, 'detected': 0, 'deductive': 0, 'native_only': 0, 'undecided': 0, 'missed': 0, 'harmless': 0, 'harmless_alarm': 0}
for name in sorted(os.listdir(os.path.join(ROOT, 'seeded'))):
    d = os.path.join(ROOT, 'seeded', name)
    det = os.path.join(d, 'detection.json')
    meta = os.path.join(d, 'meta.json')
    patch = os.path.join(d, 'patch.diff')
    if not os.path.exists(patch):
        continue
    files = sorted(set(re.findall(r'^\+\+\+ b/(\S+)', open(patch).read(), re.M)))
    what = ''
    if os.path.exists(meta):
        m = json.load(open(meta))
        txt = (m.get('needs_to_manifest') or '').strip().split('\n')
        what = ' '.join(t.strip() for t in txt[:2])[:150].replace('|', '/')
    where = ', '.join(os.path.basename(f) for f in files)
    harmless = name.startswith('harmless')
    if not os.path.exists(det):
        rows.append('| %s | %s | %s | (not run) |' % (name, where, what))
        continue
    j = json.load(open(det))
    cells = []
    any_det = any_ded = any_und = False
    for p, r in j['checks'].items():
        verdict = {0: 'pass', 1: 'VIOLATION', 2: 'UNDECIDED'}.get(r['exit'], str(r['exit']))
        ded = [o for o in r['failed_obligations'] if not o.startswith('native-differential') and '<unreachable' not in o]
        nat = [o for o in r['failed_obligations'] if o.startswith('native-differential')]
        unreach = [o for o in r['failed_obligations'] if '<unreachable' in o]
        parts = []
        if ded:
            parts.append('deductive: ' + ', '.join(sorted(set(o.split(':')[-1] for o in ded)))[:140])
        if unreach:
            parts.append('verifier could not be applied to the changed code, failing input found natively')
        if nat:
            parts.append('native: ' + ', '.join(o.split(':')[-1] for o in nat))
        if r.get('undecided'):
            parts.append('part undecided (tool limit)')
        cells.append('%s: **%s**%s' % (p, verdict, (' — ' + '; '.join(parts)) if parts else ''))
        any_det |= r['exit'] == 1
        any_ded |= bool(ded) and r['exit'] == 1
        any_und |= r['exit'] == 2
    if harmless:
        stats['harmless'] += 1
        stats['harmless_alarm'] += any_det
    else:
        stats['seeds'] += 1
        stats['detected'] += any_det
        stats['deductive'] += any_ded
        stats['native_only'] += any_det and not any_ded
        stats['undecided'] += (not any_det) and any_und
        stats['missed'] += (not any_det) and not any_und
    rows.append('| %s | %s | %s | %s |' % (name, where, what, '<br>'.join(cells)))
print('| seed | file | trigger needed | result of the check(s) |')
print('|---|---|---|---|')
print('\n'.join(rows))
print()
print('Totals: %(seeds)d property-breaking changes: %(detected)d reported as VIOLATION (%(deductive)d with at least one failed Verus/Kani obligation, %(native_only)d only through a failing input found by the native run), '
      '%(undecided)d UNDECIDED (exit 2), %(missed)d missed (exit 0). %(harmless)d behaviour-preserving refactorings: %(harmless_alarm)d alarms.' % stats)
