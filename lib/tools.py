"""Auxiliary decision procedures / bounded tools run as obligations (regexeq, native differential runs)."""
import json
import os
import re
import subprocess
import sys
import time

HERE = os.path.dirname(os.path.abspath(__file__))
ROOT = os.path.dirname(HERE)
sys.path.insert(0, HERE)
import extract  # noqa: E402

REPO = os.environ.get('VERIF_REPO', '/repo')
CACHE = os.path.join(ROOT, '.cache')


def _build(crate, target):
    env = dict(os.environ, CARGO_NET_OFFLINE='true', CARGO_TARGET_DIR=os.path.join(CACHE, target))
    p = subprocess.run(['cargo', 'build', '--release', '--offline'], cwd=os.path.join(ROOT, crate), env=env, capture_output=True, text=True)
    if p.returncode != 0:
        raise RuntimeError('build of %s failed: %s' % (crate, p.stderr[-1500:]))
    return os.path.join(CACHE, target, 'release', crate)


def extract_frame_regex():
    src = open(os.path.join(REPO, 'libs/core/src/frame.rs')).read()
    _sig, body, line = extract.find_fn(src, 'Frame', 'from_bytes')
    ms = list(re.finditer(r'Regex::new\(\s*r(#*)"(.*?)"\1\s*\)', body, re.S))
    if len(ms) != 1:
        raise extract.ExtractionError('expected exactly one Regex::new(r"...") in Frame::from_bytes, found %d' % len(ms))
    return ms[0].group(2), line


def run(tool, tier, seed):
    import engine
    kind = tool['kind']
    t0 = time.time()
    if kind == 'premise':
        # A syntactic frame condition that the per-operation proofs rest on (e.g. "a Sign object has no mutable state of
        # its own, so operations cannot communicate through it").  If it no longer holds the proofs that start every
        # operation from a fresh object do not cover the code any more: that part is UNDECIDED (never an alarm by
        # itself; a native run that finds a failing sequence still reports the violation).
        src = open(os.path.join(os.environ.get('VERIF_REPO', '/repo'), tool['file'])).read()
        src = re.sub(r'(?s)#\[cfg\(test\)\]\s*mod\s+\w+\s*\{.*', '', src)   # unit tests at the end of the file are not library code
        code = extract.strip_docs_attrs(src)
        bad = []
        want = sorted(tool.get('fields', []))
        if tool.get('struct'):
            m = re.search(r'pub\s+struct\s+%s\b[^{;]*\{([^}]*)\}' % re.escape(tool['struct']), code)
            if not m:
                raise engine.Undecided('premise %s: struct %s not found in %s' % (tool['name'], tool['struct'], tool['file']))
            fields = sorted(' '.join(f.split()) for f in m.group(1).split(',') if f.strip())
            if fields != want:
                bad.append('fields of %s are %s, expected %s' % (tool['struct'], fields, want))
        for rx, n in tool.get('exactly', []):
            k = len(re.findall(rx, code))
            if k != n:
                bad.append('%r occurs %d times in %s, expected %d' % (rx, k, tool['file'], n))
        for rx in tool['forbid']:
            mm = re.search(rx, code)
            if mm:
                bad.append('%r occurs in %s (line %d)' % (mm.group(0), tool['file'], code.count('\n', 0, mm.start()) + 1))
        if bad:
            raise engine.Undecided('premise "%s" of the per-operation proofs no longer holds: %s' % (tool['name'], '; '.join(bad)))
        o = {'name': 'premise:' + tool['name'], 'engine': 'syntactic frame condition', 'ok': True, 'time_ms': int(1000 * (time.time() - t0)),
             'detail': [tool['text']], 'bounded': False}
        return [o], {'kind': 'premise', 'name': tool['name'], 'file': tool['file'], 'checked': {'fields': want, 'forbidden_patterns': tool['forbid']}}
    if kind == 'regexeq':
        try:
            pat, line = extract_frame_regex()
        except extract.ExtractionError as e:
            raise engine.Undecided('regex literal not found in Frame::from_bytes: %s' % e)
        exe = _build('regexeq', 'regexeq-target')
        os.makedirs(os.path.join(CACHE, 'gen', str(os.getpid())), exist_ok=True)
        pa = os.path.join(CACHE, 'gen', str(os.getpid()), 'frame_regex_from_repo.txt')
        open(pa, 'w').write(pat)
        pb = os.path.join(ROOT, 'contracts', 'frame_regex_reference.txt')
        p = subprocess.run([exe, pa, pb], capture_output=True, text=True, timeout=600)
        try:
            j = json.loads(p.stdout)
        except Exception:
            raise engine.Undecided('regexeq produced no verdict: %s %s' % (p.stdout[-300:], p.stderr[-300:]))
        if j.get('status') != 'ok':
            raise engine.Undecided('regexeq could not compile a pattern: %s' % j)
        wall = time.time() - t0
        o1 = {'name': 'regexeq:regex.shape', 'engine': 'regexeq/dfa-product', 'ok': bool(j['language_equal']), 'time_ms': int(wall * 1000),
              'detail': ['pattern in frame.rs:%d accepts exactly the documented language (product of %d DFA state pairs over all 256 byte values)' % (line, j['product_states'])]
              if j['language_equal'] else ['pattern in /repo and the documented pattern differ on the byte string "%s" (hex %s); /repo pattern accepts it: %s' % (j['witness'], j['witness_hex'], j['a_accepts'])],
              'bounded': False}
        if not j['language_equal']:
            o1['witness'] = {'domain': 'frame-decode', 'input': j['witness_hex'], 'note': 'shortest string distinguishing the two patterns'}
            o1['raw'] = p.stdout
        o2 = {'name': 'regexeq:regex.groups', 'engine': 'regexeq/hir-skeleton', 'ok': bool(j['groups_equal']), 'time_ms': 0,
              'detail': ['capture groups: same names, order and widths as the documented pattern: ' + j['skeleton_a']] if j['groups_equal']
              else ['capture-group skeleton differs: /repo %s vs documented %s' % (j['skeleton_a'], j['skeleton_b'])], 'bounded': False}
        if not j['groups_equal']:
            o2['raw'] = p.stdout
        return [o1, o2], {'tool': 'regexeq', 'cmd': '%s %s %s' % (exe, pa, pb), 'wall_s': round(wall, 2), 'result': j}
    if kind == 'witness':
        # bounded native differential run of the real functions against the executable spec (never counted as proved)
        import witness
        obls = []
        metas = []
        for dom in tool['domains']:
            try:
                r = witness.run_search(dom, seed or 1, scale=(10 if tier == 'thorough' else 1))
            except Exception as e:
                raise engine.Undecided('native differential run unavailable: %s' % str(e)[:400])
            o = {'name': 'native-differential:%s' % dom, 'engine': 'native/differential', 'ok': not r['found'], 'time_ms': int(r['wall_s'] * 1000),
                 'detail': ['no disagreement between the real code and the executable spec on the enumerated/sampled inputs'] if not r['found']
                 else ['real code disagrees with the spec on input %s: expected %s, got %s' % (r['input'], r['expected'], r['actual'])],
                 'bounded': True, 'bound': tool.get('bound', 'enumerated + sampled inputs, see witness/src/main.rs') + (' (random budgets x10 in the thorough tier)' if tier == 'thorough' else '')}
            if r['found']:
                o['witness'] = {'domain': dom, 'input': r['input'], 'expected': r['expected'], 'actual': r['actual'], 'seed': r.get('seed', 1)}
            obls.append(o)
            metas.append(r.get('cmd', ''))
        return obls, {'tool': 'witness', 'cmd': ' ; '.join(metas), 'wall_s': round(time.time() - t0, 2)}
    raise RuntimeError('unknown tool kind ' + kind)
