"""Texts for MANIFEST.json (level claims, trusted base, technique) per property."""

ENGINES = [
    {'name': 'verus', 'path': 'lib/verus.py + lib/extract.py + contracts/', 'kind_free_text': 'Verus 0.2026.09.13 (Z3) on functions extracted mechanically from /repo on every run, contracts spliced in',
     'serves_properties': ['C01', 'C02', 'C03', 'C05', 'C06', 'C07']},
    {'name': 'kani', 'path': 'lib/kani.py + kani/', 'kind_free_text': 'Kani 0.68 (CBMC 6.11) on the real crates; harness modules overlaid into a scratch copy of the working tree',
     'serves_properties': ['C01', 'C03', 'C04', 'C05', 'C06', 'C08', 'C09', 'C10', 'C11', 'C12', 'C13', 'C14', 'C15', 'C16', 'C17', 'C18', 'C19', 'C20']},
    {'name': 'regexeq', 'path': 'regexeq/', 'kind_free_text': 'decision procedure: product of the dense DFAs of the pattern in /repo and the documented pattern (regex-automata), plus capture-group skeleton comparison',
     'serves_properties': ['C01', 'C02', 'C03', 'C05']},
    {'name': 'witness', 'path': 'witness/', 'kind_free_text': 'native differential search (real code vs executable spec): supplies concrete failing inputs for replay; bounded, never counted as proved',
     'serves_properties': ['C01', 'C02', 'C03', 'C04', 'C05', 'C06', 'C07', 'C19']},
]

NOTES = ('Contract-based deductive verification. `./check <ID>` prints one line per obligation, then PASS / VIOLATION / UNDECIDED. '
         'Exit 2 (UNDECIDED) is a tool limit (lost anchor, unsupported construct, timeout), never an alarm. See DESIGN.md.')

NOT_APPLICABLE = {}

TB_VERUS = 'Trusted: Verus+Z3; the assumed std specifications in contracts/std_prelude.rs (Cow deref/to_mut, fill, Vec range IndexMut, Into<Cow>), 64-bit usize; the extractor (lib/extract.py) and its stated rewrites.'
TB_KANI = 'Trusted: Kani+CBMC (incl. its allocator model); overflow checks as in the dev profile; the harness-side transcription of the specification.'

CHECKS = {
    'C01': {'engine': 'verus+kani+regexeq', 'design_ref': 'DESIGN.md §5 C01', 'technique': 'deductive verification: Verus contracts on extracted frame.rs + codec lemmas; Kani contract discharge for checksum/parse_hex; regex DFA equivalence',
            'text': 'Unbounded proof: to_bytes == enc, to_bytes_with_newline == enc+CRLF, from_bytes == dec (for every byte string), Data type invariant len <= 255, lemmas dec(enc(f)) == Ok(f) with and without CRLF, format and sum-to-zero lemma. The capacity self-checks and the chunks/map/collect pipeline are covered by bounded Kani stand-ins only (listed separately in the evidence).',
            'note': TB_VERUS + ' ' + TB_KANI + ' regex crate implements its pattern; exact Vec::with_capacity.'},
    'C02': {'engine': 'verus+kani+regexeq', 'design_ref': 'DESIGN.md §5 C02', 'technique': 'deductive verification: Verus lemmas over the codec specification (all single-fault corruptions), carried to the real code by the contracts of to_bytes / from_bytes',
            'text': 'Unbounded proof, for every frame and both terminator variants: every single substitution (every position x every byte), deletion, duplication, adjacent transposition of unequal characters and proper prefix decodes to the original frame or is rejected; an accepted string always has matching length and checksum. No assume/admit in the lemmas.',
            'note': TB_VERUS + ' ' + TB_KANI + ' regex crate implements its pattern.'},
    'C03': {'engine': 'verus+kani+regexeq', 'design_ref': 'DESIGN.md §5 C03', 'technique': 'deductive verification: from_bytes == reference decoder dec() as a Verus postcondition; regex DFA equivalence; re-encode lemma',
            'text': 'Unbounded proof that the real from_bytes returns exactly the independent Intel-HEX reader dec() for every byte string (totality: every unwrap/index/cast proved safe; classification and precedence of the three rejection classes with the reported counts/values), that the regex in /repo accepts exactly the documented language (all 256 byte values, any length), and lemma_reencode.',
            'note': TB_VERUS + ' ' + TB_KANI + ' regex crate implements its pattern (bounded native differential run backs this).'},
    'C04': {'engine': 'kani', 'design_ref': 'DESIGN.md §5 C04', 'technique': 'Kani loop-free harnesses over the full symbolic input domain (complete proof)',
            'text': 'Complete proof over every frame (any u16 address, any u8 type, data of every length 0..=255 with arbitrary contents): classification equals the protocol table (iff), and Frame -> Message -> Frame is the identity.',
            'note': TB_KANI + ' The protocol table in the harness is a third transcription.'},
    'C05': {'engine': 'kani+verus', 'design_ref': 'DESIGN.md §5 C05', 'technique': 'Kani full-domain harness (message leg) composed with the Verus codec contracts (wire leg)',
            'text': 'Message -> Frame -> Message identity for every specific message by a loop-free Kani harness (complete); the wire leg is the C01 obligations; the composition step is a stated two-line argument.',
            'note': TB_KANI + ' ' + TB_VERUS},
    'C06': {'engine': 'verus+kani', 'design_ref': 'DESIGN.md §5 C06', 'technique': 'deductive verification: whole-view postconditions on extracted page.rs + lemmas; Kani never-returns harness for out-of-bounds',
            'text': 'Unbounded proof (all u32 dimensions and coordinates) that set_pixel changes exactly the addressed bit of exactly one byte, set_all_pixels fills exactly the data area, get_pixel reads the addressed bit, in-bounds never panics, with lemmas deriving the property statement; out-of-bounds coordinates never return (Kani, page images up to 512 bytes).',
            'note': TB_VERUS + ' ' + TB_KANI},
    'C07': {'engine': 'verus', 'design_ref': 'DESIGN.md §5 C07', 'technique': 'deductive verification: Verus postconditions on extracted page.rs (Page::new byte image, from_bytes iff, size functions) + injectivity lemma',
            'text': 'Unbounded proof for all ids, all u32 widths/heights/coordinates and all candidate lengths.',
            'note': TB_VERUS + ' derived PartialEq is field-wise.'},
    'C12': {'engine': 'kani', 'design_ref': 'DESIGN.md §5 C12', 'technique': 'Kani per-step harness from an arbitrary (unconstrained) sign state: inductive, covers every message history',
            'text': 'Proof of the inductive step: from ANY state (no invariant assumed) ANY message is processed without a panic, overflow or failed unwrap; arbitrary 16-byte configuration blocks are digested without overflow; the bus loop is verified against the contract of the sign step for 1..4 signs. State-size bounds (buffer <= 64 bytes, <= 1 stored page) are stated in the evidence.',
            'note': TB_KANI + ' log macros disabled (no logger installed).'},
    'C13': {'engine': 'kani', 'design_ref': 'DESIGN.md §5 C13', 'technique': 'Kani per-step refinement of a specification state machine + inductive invariant',
            'text': 'For every state satisfying the inductive invariant and every message, the real step equals spec_step (reply and successor state, buffer contents at an arbitrary index, stored page == buffered bytes) and preserves the invariant; the initial state satisfies it. Hence all histories.',
            'note': TB_KANI + ' spec_step is a transcription of the protocol description.'},
    'C14': {'engine': 'kani', 'design_ref': 'DESIGN.md §5 C14', 'technique': 'Kani sign-level frame condition + modular bus-level harness (callee replaced by its contract)',
            'text': 'Foreign-addressed messages and unaddressed data on a non-receiving sign change nothing and get no reply (all states satisfying the invariant, all messages); the bus delivers an addressed message so that only the addressee can change and only it replies, for every population of 1..4 distinct addresses.',
            'note': TB_KANI},
    'C16': {'engine': 'kani', 'design_ref': 'DESIGN.md §5 C16', 'technique': 'Kani full-domain harnesses on process_message with contract stubs for Frame::read/write and an event log',
            'text': 'Complete over all messages, replies and failure placements, given the callee contracts of Frame::write / Frame::read (assumed here, see C15).',
            'note': TB_KANI + ' Frame::read/write contracts assumed.'},
    'C17': {'engine': 'kani', 'design_ref': 'DESIGN.md §5 C17', 'technique': 'Kani harness on the ODK bridge step with contract stubs; end-to-end equivalence NOT mechanised',
            'text': 'Only the per-call bridge contract is machine-checked (complete over frames read, bus answers and failures). The whole-history equivalence of the serial path and the direct path is a paper composition of C01, C04/C05, C16 and this contract; no function contract expresses it. Level other.',
            'note': TB_KANI + ' composition step not mechanised.'},
    'C18': {'engine': 'kani', 'design_ref': 'DESIGN.md §5 C18', 'technique': 'Kani full-domain harnesses: delay classifiers + event order over a ghost clock advanced only by thread::sleep',
            'text': 'Complete over all messages and replies for the classifiers and the placement of the two sleeps; time itself is a ghost clock (assumption: thread::sleep(d) blocks >= d).',
            'note': TB_KANI + ' wall-clock time is outside the model.'},
    'C20': {'engine': 'kani', 'design_ref': 'DESIGN.md §5 C20', 'technique': 'Kani loop-free harnesses over the full product of prior settings x failure placements',
            'text': 'Complete: Ok <=> no device call failed; Ok => 19200 8N1 no flow control and the timeout applied (5 s bus / 10 s bridge / caller value); a failure is returned, no object exists, nothing follows the failing call.',
            'note': TB_KANI + ' mock SerialDevice; serial_core::reconfigure executed as is.'},
    'C19': {'engine': 'kani', 'design_ref': 'DESIGN.md §5 C19', 'technique': 'Kani loop-free harnesses over all 11 variants and all byte strings up to 64 bytes',
            'text': 'Complete over the 11 sign types; decoding is total and exact for every byte string of length 0..=64 with arbitrary contents (the only length-dependent operation is the != 16 test); virtual-sign derivation for all 11 types.',
            'note': TB_KANI},
}
