"""Mechanical extraction of real items from /repo sources and splicing of contracts.

A *template* (contracts/*.rs.tmpl) is a Verus file with directive blocks:

    //@fn <repo-relative-file> <ImplType|-> <fn_name>
    //@ sig "<old>" => "<new>"            (optional exact rewrite inside the signature, must match once)
    //@ contract
    <verbatim lines: requires / ensures / decreases, spliced between signature and body>
    //@ entry
    <verbatim lines inserted at the very start of the body (ghost proof blocks only)>
    //@ loop <n>
    <verbatim lines spliced between the header of the n-th loop of the body and its `{`>
    //@ loopend <n>
    <verbatim lines inserted at the end of the n-th loop's body>
    //@ after "<text a statement starts with>"
    <verbatim lines inserted after that statement (up to its `;` at nesting depth 0)>
    //@ rewrite "<old>" => "<new>"        (exact text, must occur exactly once in the body)
    //@ drop "<exact statement text>"     (must occur exactly once; statement removed)
    //@end

    //@type <repo-relative-file> <Name>   (struct/enum item; doc comments and attributes dropped)
    //@const <repo-relative-file> <NAME>  (module-level const item, verbatim)

Everything else in the template is copied through.  Signature and body text of every
extracted function are the bytes found in /repo at run time.  If an anchor is missing or
ambiguous the extraction raises ExtractionError -> the check reports UNDECIDED (exit 2),
never a violation.
"""
import re


class ExtractionError(Exception):
    pass


# ---------------------------------------------------------------- scanner

def _skip_trivia(s, i):
    """If position i starts a comment / string / char literal, return the index just after it,
    else return None."""
    n = len(s)
    c = s[i]
    if c == '/' and i + 1 < n:
        if s[i + 1] == '/':
            j = s.find('\n', i)
            return n if j < 0 else j
        if s[i + 1] == '*':
            depth, j = 1, i + 2
            while j < n and depth:
                if s.startswith('/*', j):
                    depth += 1
                    j += 2
                elif s.startswith('*/', j):
                    depth -= 1
                    j += 2
                else:
                    j += 1
            return j
    if c == '"':
        j = i + 1
        while j < n:
            if s[j] == '\\':
                j += 2
            elif s[j] == '"':
                return j + 1
            else:
                j += 1
        return n
    if c in 'rb':
        # r"..", r#".."#, b"..", br#".."#, b'x'
        m = re.match(r'(?:br|rb|r)(#*)"', s[i:])
        if m and (i == 0 or not (s[i - 1].isalnum() or s[i - 1] == '_')):
            hashes = m.group(1)
            end = s.find('"' + hashes, i + m.end())
            if end < 0:
                return n
            return end + 1 + len(hashes)
        if s.startswith('b"', i) and (i == 0 or not (s[i - 1].isalnum() or s[i - 1] == '_')):
            return _skip_trivia(s, i + 1)
        if s.startswith("b'", i) and (i == 0 or not (s[i - 1].isalnum() or s[i - 1] == '_')):
            return _skip_trivia(s, i + 1)
    if c == "'":
        # char literal or lifetime
        m = re.match(r"'(?:\\(?:x[0-9a-fA-F]{2}|u\{[0-9a-fA-F_]+\}|.)|[^\\'])'", s[i:])
        if m:
            return i + m.end()
        return i + 1  # lifetime tick
    return None


def match_close(s, i, open_ch='{', close_ch='}'):
    """s[i] == open_ch; return index of the matching close_ch."""
    assert s[i] == open_ch
    depth = 0
    n = len(s)
    while i < n:
        j = _skip_trivia(s, i)
        if j is not None:
            i = j
            continue
        c = s[i]
        if c == open_ch:
            depth += 1
        elif c == close_ch:
            depth -= 1
            if depth == 0:
                return i
        i += 1
    raise ExtractionError('unbalanced %s' % open_ch)


def code_positions(s, start=0, end=None):
    """Yield indices of characters in s[start:end] that are code (not comment/string)."""
    i = start
    end = len(s) if end is None else end
    while i < end:
        j = _skip_trivia(s, i)
        if j is not None:
            i = j
            continue
        yield i
        i += 1


def find_code(s, needle, start=0, end=None):
    """All occurrences of needle in s[start:end] starting at a code position."""
    out = []
    end = len(s) if end is None else end
    code = set(code_positions(s, start, end))
    k = s.find(needle, start, end)
    while k >= 0:
        if k in code:
            out.append(k)
        k = s.find(needle, k + 1, end)
    return out


def strip_docs_attrs(text):
    """Drop doc comments, ordinary comments-only lines and attribute lines (#[...])."""
    out = []
    i = 0
    lines = text.split('\n')
    skipping_attr = 0
    for ln in lines:
        st = ln.strip()
        if skipping_attr:
            skipping_attr += st.count('[') + st.count('(') - st.count(']') - st.count(')')
            if skipping_attr <= 0:
                skipping_attr = 0
            continue
        if st.startswith('///') or st.startswith('//!'):
            continue
        if st.startswith('#[') or st.startswith('#!['):
            bal = st.count('[') + st.count('(') - st.count(']') - st.count(')')
            if bal > 0:
                skipping_attr = bal
            continue
        out.append(ln)
    return '\n'.join(out)


# ---------------------------------------------------------------- item location

def _impl_blocks(src, type_name):
    """Yield (body_start, body_end) of every inherent `impl ... Type ... {` block (not `impl Trait for`)."""
    for m in re.finditer(r'(?m)^impl\b[^{;]*\{', src):
        header = m.group(0)
        if ' for ' in header:
            continue
        if not re.search(r'\b%s\b' % re.escape(type_name), header):
            continue
        ob = m.end() - 1
        cb = match_close(src, ob)
        yield ob + 1, cb


def _trait_impl_blocks(src, trait_name, type_name):
    for m in re.finditer(r'(?m)^impl\b[^{;]*\{', src):
        header = m.group(0)
        if ' for ' not in header:
            continue
        left, right = header.split(' for ', 1)
        if not re.search(r'\b%s\b' % re.escape(trait_name), left):
            continue
        if not re.search(r'\b%s\b' % re.escape(type_name), right):
            continue
        ob = m.end() - 1
        cb = match_close(src, ob)
        yield ob + 1, cb


def find_fn(src, owner, name):
    """Return (sig, body, start_line) for fn `name` in inherent impl of `owner` ('-' = free fn).
    owner may be 'Trait@Type' for a trait impl.
    sig is the text from `fn` (with its qualifiers such as pub) up to but excluding `{`;
    body is the text strictly between the outer braces."""
    if owner == '-':
        regions = [(0, len(src))]
        pat = re.compile(r'(?m)^(?:pub(?:\([a-z]+\))?\s+)?(?:const\s+)?fn\s+%s\b' % re.escape(name))
    else:
        if '@' in owner:
            tr, ty = owner.split('@')
            regions = list(_trait_impl_blocks(src, tr, ty))
        else:
            regions = list(_impl_blocks(src, owner))
        pat = re.compile(r'(?m)^[ \t]+(?:pub(?:\([a-z]+\))?\s+)?(?:const\s+)?fn\s+%s\b' % re.escape(name))
    hits = []
    for (a, b) in regions:
        code = set(code_positions(src, a, b))
        for m in pat.finditer(src, a, b):
            fn_kw = src.find('fn', m.start(), m.end())
            if fn_kw in code:
                hits.append(m)
    if len(hits) != 1:
        raise ExtractionError('fn %s::%s: expected exactly one definition, found %d' % (owner, name, len(hits)))
    m = hits[0]
    # opening brace of the body: first `{` at code position after the signature
    i = m.end()
    for i in code_positions(src, m.end()):
        if src[i] == '{':
            break
        if src[i] == ';':
            raise ExtractionError('fn %s::%s has no body' % (owner, name))
    ob = i
    cb = match_close(src, ob)
    sig = src[m.start():ob].strip()
    body = src[ob + 1:cb]
    line = src.count('\n', 0, m.start()) + 1
    return sig, body, line


def find_type(src, name):
    m = re.search(r'(?m)^pub\s+(struct|enum)\s+%s\b[^{;(]*' % re.escape(name), src)
    if not m:
        raise ExtractionError('type %s not found' % name)
    j = m.end()
    if src[j] == '{':
        cb = match_close(src, j)
        text = src[m.start():cb + 1]
    elif src[j] == '(':
        cb = match_close(src, j, '(', ')')
        semi = src.index(';', cb)
        text = src[m.start():semi + 1]
    else:
        text = src[m.start():src.index(';', j) + 1]
    return strip_docs_attrs(text), src.count('\n', 0, m.start()) + 1


def find_const(src, name):
    m = re.search(r'(?m)^(?:pub\s+)?const\s+%s\s*:[^;]*;' % re.escape(name), src)
    if not m:
        raise ExtractionError('const %s not found' % name)
    return m.group(0), src.count('\n', 0, m.start()) + 1


# ---------------------------------------------------------------- body editing

_LOOP_RE = re.compile(r'\b(for|while|loop)\b')


def loops_in(body):
    """Return list of (kw_index, open_brace_index, close_brace_index) for each loop in source order."""
    out = []
    code = list(code_positions(body))
    codeset = set(code)
    for m in _LOOP_RE.finditer(body):
        if m.start() not in codeset:
            continue
        # preceded by identifier char or '.'? (e.g. `.for`) skip
        if m.start() > 0 and (body[m.start() - 1].isalnum() or body[m.start() - 1] in '_.'):
            continue
        # find the `{` that opens the loop body: first `{` at paren/bracket depth 0 after header
        depth = 0
        ob = None
        for i in code_positions(body, m.end()):
            ch = body[i]
            if ch in '([':
                depth += 1
            elif ch in ')]':
                depth -= 1
            elif ch == '{' and depth == 0:
                ob = i
                break
            elif ch == ';' and depth == 0:
                break
        if ob is None:
            continue
        cb = match_close(body, ob)
        out.append((m.start(), ob, cb))
    return out


def statement_end(body, start):
    """Index just after the `;` that ends the statement starting at `start` (depth 0)."""
    depth = 0
    for i in code_positions(body, start):
        ch = body[i]
        if ch in '([{':
            depth += 1
        elif ch in ')]}':
            depth -= 1
            if depth < 0:
                raise ExtractionError('statement end not found')
        elif ch == ';' and depth == 0:
            return i + 1
    raise ExtractionError('statement end not found')


def decode_bytes_literal(lit):
    out = []
    i = 0
    while i < len(lit):
        c = lit[i]
        if c == '\\':
            n = lit[i + 1]
            if n == 'x':
                out.append(int(lit[i + 2:i + 4], 16))
                i += 4
                continue
            m = {'n': 10, 'r': 13, 't': 9, '\\': 92, '0': 0, '"': 34, "'": 39}
            if n not in m:
                raise ExtractionError('unsupported escape in byte string literal: %r' % lit)
            out.append(m[n])
            i += 2
            continue
        if not (32 <= ord(c) < 127):
            raise ExtractionError('non-ASCII byte string literal: %r' % lit)
        out.append(ord(c))
        i += 1
    return out


_BLIT = r'b"((?:[^"\\]|\\.)*)"'


def find_inline_literals(body):
    """Byte-string literals b"..." at code level (not inside comments / other strings)."""
    out = []
    i = 0
    n = len(body)
    while i < n:
        j = _skip_trivia(body, i)
        if j is not None:
            if body.startswith('b"', i):
                m = re.match(_BLIT, body[i:j])
                if m:
                    out.append(_LitMatch(i, j, m.group(1)))
            i = j
            continue
        i += 1
    return out


class _LitMatch:
    def __init__(self, a, b, text):
        self.a, self.b, self.text = a, b, text

    def start(self):
        return self.a

    def end(self):
        return self.b

    def group(self, k):
        return self.text


class FnEdit:
    def __init__(self, file, owner, name):
        self.file, self.owner, self.name = file, owner, name
        self.sig_rw = []
        self.contract = []
        self.entry = []
        self.loops = {}
        self.loopends = {}
        self.afters = []
        self.rewrites = []
        self.drops = []
        self.nloops = None
        self.ret = None
        self.tail = []
        self.dropmacros = []
        self.rewrites_re = []
        self.bytes_consts = []
        self.before_result = []
        self.inline_lits = []
        self.loopstarts = {}
        self.desugar_try = False
        self.dropmacro_exprs = []
        self.guards_to_if = False

    def apply(self, src):
        sig, body, line = find_fn(src, self.owner, self.name)
        orig_sig, orig_body = sig, body
        log = []
        for old, new in self.sig_rw:
            if sig.count(old) != 1:
                raise ExtractionError('%s: signature rewrite anchor %r occurs %d times' % (self.name, old, sig.count(old)))
            sig = sig.replace(old, new)
            log.append('sig-rewrite %r => %r' % (old, new))
        if self.ret:
            arrows = [k for k in find_code(sig, '->')]
            # the function's own return arrow is the last one at paren/bracket/angle depth 0
            depth = 0
            top = []
            for k in code_positions(sig):
                ch = sig[k]
                if ch in '([':
                    depth += 1
                elif ch in ')]':
                    depth -= 1
                elif ch == '-' and sig.startswith('->', k) and depth == 0:
                    top.append(k)
            if not top:
                raise ExtractionError('%s: no return type to name' % self.name)
            k = top[-1]
            rest = sig[k + 2:]
            m = re.search(r'\swhere\s', rest)
            ty = rest[:m.start()] if m else rest
            wh = rest[m.start():] if m else ''
            sig = '%s-> (%s: %s)%s' % (sig[:k], self.ret, ty.strip(), wh)
            log.append('return value named %s' % self.ret)
        # Insert from the end of the text backwards so indices stay valid: collect insertions first.
        ins = []  # (index, text, kind)
        reps = []  # (start, end, text)
        lps = loops_in(body)
        lost = []
        if self.nloops is not None and len(lps) != self.nloops:
            lost.append('expected %d loops, found %d (loop invariants not spliced)' % (self.nloops, len(lps)))
            self.loops, self.loopstarts, self.loopends = {}, {}, {}
        for n, lines in self.loops.items():
            if n < 1 or n > len(lps):
                raise ExtractionError('%s: loop %d not found (%d loops)' % (self.name, n, len(lps)))
            ins.append((lps[n - 1][1], '\n' + '\n'.join(lines) + '\n', 'loop'))
        for n, lines in self.loopstarts.items():
            if n < 1 or n > len(lps):
                raise ExtractionError('%s: loop %d not found (%d loops)' % (self.name, n, len(lps)))
            ins.append((lps[n - 1][1] + 1, '\n' + '\n'.join(lines) + '\n', 'loopstart'))
        for n, lines in self.loopends.items():
            if n < 1 or n > len(lps):
                raise ExtractionError('%s: loop %d not found (%d loops)' % (self.name, n, len(lps)))
            ins.append((lps[n - 1][2], '\n' + '\n'.join(lines) + '\n', 'loopend'))
        for anchor, lines in self.afters:
            occ = find_code(body, anchor)
            if len(occ) != 1:
                lost.append('hint anchor %r occurs %d times (hint skipped)' % (anchor, len(occ)))
                continue
            e = statement_end(body, occ[0])
            ins.append((e, '\n' + '\n'.join(lines) + '\n', 'after'))
        for old, new, cnt in self.rewrites:
            occ = find_code(body, old)
            if len(occ) != cnt:
                raise ExtractionError('%s: rewrite anchor %r occurs %d times, expected %d' % (self.name, old, len(occ), cnt))
            for o in occ:
                reps.append((o, o + len(old), new))
            log.append('rewrite %r => %r (x%d)' % (old, new, cnt))
        for text in self.drops:
            occ = find_code(body, text)
            if len(occ) != 1:
                lost.append('drop anchor %r occurs %d times (nothing dropped)' % (text, len(occ)))
                continue
            reps.append((occ[0], occ[0] + len(text), '/* dropped: ' + text.replace('*/', '* /') + ' */'))
            log.append('drop %r' % text)
        extra = {}
        for anchor, lines in self.before_result:
            stripped = body.rstrip()
            if not stripped.endswith(anchor):
                lost.append('body does not end with result expression %r (hint skipped)' % anchor)
                continue
            k = len(stripped) - len(anchor)
            if k > 0 and (body[k - 1].isalnum() or body[k - 1] in '_.'):
                raise ExtractionError('%s: result expression %r is not a whole expression' % (self.name, anchor))
            ins.append((k, '\n'.join(lines) + '\n', 'before_result'))
        for mac in self.dropmacros:
            occ = find_code(body, mac)
            if len(occ) != 1:
                raise ExtractionError('%s: macro %r occurs %d times' % (self.name, mac, len(occ)))
            ob = body.index('{', occ[0])
            cb = match_close(body, ob)
            extra.setdefault('dropped_macros', []).append({'macro': mac, 'text': body[occ[0]:cb + 1]})
            reps.append((occ[0], cb + 1, '/* dropped macro block: %s {..} */' % mac))
            log.append('drop macro block %s{..}' % mac)
        for rx, tmpl, cnt in self.rewrites_re:
            codeset = set(code_positions(body))
            ms = [m for m in re.finditer(rx, body) if m.start() in codeset]
            if len(ms) != cnt:
                raise ExtractionError('%s: regex rewrite anchor %r occurs %d times, expected %d' % (self.name, rx, len(ms), cnt))
            for m in ms:
                reps.append((m.start(), m.end(), m.expand(tmpl)))
            log.append('rewrite-re %r => %r (x%d)' % (rx, tmpl, cnt))
        if self.guards_to_if:
            # Verus loses the resolution of `final(self)` across a match that has guards.  Each arm `PAT if COND => EXPR,`
            # becomes `PAT => if COND { EXPR } else { DEFAULT },` where DEFAULT is the expression of the final `_` arm.
            # That is the same program iff a value rejected by the guard cannot match any LATER arm except `_`; this is
            # checked here syntactically (constructor or an enum-literal argument must differ) and refused otherwise.
            mm = re.search(r'match\s+[^{]+\{', body)
            if not mm or mm.start() not in set(code_positions(body)):
                raise ExtractionError('%s: guards-to-if: no match expression' % self.name)
            ob = mm.end() - 1
            cb = match_close(body, ob)
            inner = body[ob + 1:cb]
            arms = []   # (start, end, pat, cond, expr) relative to body
            pos = ob + 1
            for ln in inner.split('\n'):
                st = ln.strip()
                if st and not st.startswith('//'):
                    m2 = re.match(r'^(.*?)(?:\s+if\s+(.*?))?\s*=>\s*(.*),$', st)
                    if not m2:
                        raise ExtractionError('%s: guards-to-if: arm is not of the single-line form `PAT [if COND] => EXPR,`: %r' % (self.name, st[:60]))
                    a0 = pos + (len(ln) - len(ln.lstrip()))
                    arms.append((a0, a0 + len(st), m2.group(1).strip(), m2.group(2), m2.group(3).strip()))
                pos += len(ln) + 1
            if not arms or arms[-1][2] != '_' or arms[-1][3]:
                raise ExtractionError('%s: guards-to-if: last arm is not an unguarded `_`' % self.name)
            default = arms[-1][4]

            def _split_pat(p):
                m3 = re.match(r'^([\w:]+)\((.*)\)$', p)
                if not m3:
                    return p, []
                return m3.group(1), [x.strip() for x in m3.group(2).split(',')]

            def _disjoint(p, q):
                for pa in p.split('|'):
                    for qa in q.split('|'):
                        c1, a1 = _split_pat(pa.strip())
                        c2, a2 = _split_pat(qa.strip())
                        if c1 != c2:
                            continue
                        if len(a1) == len(a2) and any('::' in x and '::' in y and x != y for x, y in zip(a1, a2)):
                            continue
                        return False
                return True
            n_g = 0
            for k, (a0, a1, pat, cond, expr) in enumerate(arms):
                if not cond:
                    continue
                for (_, _, pat2, _, _) in arms[k + 1:-1]:
                    if not _disjoint(pat, pat2):
                        raise ExtractionError('%s: guards-to-if: arm %r may fall through to the overlapping later arm %r' % (self.name, pat, pat2))
                reps.append((a0, a1, '%s => if %s { %s } else { %s },' % (pat, cond, expr, default)))
                n_g += 1
            log.append('guards-to-if: %d guarded arms rewritten to `PAT => if COND { EXPR } else { %s }` (no later arm overlaps: checked)' % (n_g, default))
        for mac in self.dropmacro_exprs:
            # every invocation `mac(...)` (a logging macro: an expression of type ()) is replaced by `()`
            occ = find_code(body, mac + '(')
            for o in occ:
                if o > 0 and (body[o - 1].isalnum() or body[o - 1] == '_'):
                    continue
                cp = match_close(body, o + len(mac), '(', ')')
                reps.append((o, cp + 1, '()'))
            extra.setdefault('dropped_macro_calls', []).append({'macro': mac, 'count': len(occ)})
            log.append('drop %d invocation(s) of %s(..) (replaced by `()`)' % (len(occ), mac))
        if self.desugar_try:
            # `EXPR?;` (statement-final try) => the language-defined desugaring with an explicit From::from call.
            # Verus leaves the converted error of `?` unconstrained when the error types differ; the explicit call is
            # checked against the From impl's specification.  Purely syntactic, applied to every statement-final `?`.
            cps = list(code_positions(body))
            cset = set(cps)
            n_try = 0
            for q in cps:
                if body[q] != '?':
                    continue
                k = q + 1
                while k < len(body) and body[k] in ' \t\n':
                    k += 1
                if k >= len(body) or body[k] != ';':
                    raise ExtractionError('%s: a `?` that does not end its statement cannot be desugared' % self.name)
                depth = 0
                st = 0
                for j in reversed([c for c in cps if c < q]):
                    ch = body[j]
                    if ch in ')]}':
                        if ch == '}' and depth == 0:
                            st = j + 1
                            break
                        depth += 1
                    elif ch in '([{':
                        if depth == 0:
                            st = j + 1
                            break
                        depth -= 1
                    elif ch == ';' and depth == 0:
                        st = j + 1
                        break
                # statement text starts at the first code character (skip leading comments / blank space)
                st = min([c for c in cps if c >= st and not body[c].isspace()] + [q])
                stmt = body[st:q]
                m = re.match(r'\s*let\s[^=]*=(?!=)', stmt)
                es = st + (m.end() if m else len(stmt) - len(stmt.lstrip()))
                expr = body[es:q].strip()
                reps.append((es, q + 1, ' match %s { Ok(v__) => v__, Err(e__) => return Err(From::from(e__)) }' % expr))
                n_try += 1
            log.append('desugar-try: %d statement-final `?` replaced by `match .. { Ok(v) => v, Err(e) => return Err(From::from(e)) }`' % n_try)
        for lname in self.inline_lits:
            ms = [m for m in find_inline_literals(body) if not re.search(r'const\s+\w+\s*:\s*&\[u8\]\s*=\s*$', body[:m.start()])]
            if len(ms) != 1:
                raise ExtractionError('%s: expected exactly one inline byte-string literal, found %d' % (self.name, len(ms)))
            extra.setdefault('inline_lits', {})[lname] = decode_bytes_literal(ms[0].group(1))
            reps.append((ms[0].start(), ms[0].end(), 'lit_%s()' % lname))
            log.append('inline literal b"%s" replaced by lit_%s() whose ensures is generated from that literal' % (ms[0].group(1), lname))
        for cname in self.bytes_consts:
            rx = r'const\s+%s\s*:\s*&\[u8\]\s*=\s*b"((?:[^"\\]|\\.)*)"\s*;' % re.escape(cname)
            ms = list(re.finditer(rx, body))
            if len(ms) != 1:
                raise ExtractionError('%s: byte-string const %s found %d times' % (self.name, cname, len(ms)))
            lit = ms[0].group(1)
            if '\\' in lit or not all(32 <= ord(c) < 127 for c in lit):
                raise ExtractionError('%s: byte-string const %s is not plain ASCII' % (self.name, cname))
            extra.setdefault('bytes_consts', {})[cname] = [ord(c) for c in lit]
            reps.append((ms[0].start(), ms[0].end(), 'let %s: &[u8] = lit_%s();' % (cname, cname)))
            log.append('byte-string const %s = b"%s" replaced by lit_%s() whose ensures is generated from that literal' % (cname, lit, cname))
        edits = [(i, i, t) for (i, t, _) in ins] + reps
        edits.sort(key=lambda e: (e[0], e[1]), reverse=True)
        last = len(body) + 1
        for a, b, t in edits:
            if b > last:
                raise ExtractionError('%s: overlapping edits' % self.name)
            body = body[:a] + t + body[b:]
            last = a
        contract = '\n'.join(self.contract)
        entry = '\n'.join(self.entry)
        tail = '\n'.join(self.tail)
        text = '%s\n%s\n{\n%s\n%s\n%s}\n' % (sig, contract, entry, body, tail)
        return text, {'fn': '%s::%s' % (self.owner, self.name), 'file': self.file, 'line': line,
                      'sig': orig_sig, 'body_bytes': len(orig_body), 'edits': log, 'extra': extra, 'lost_anchors': lost,
                      'body_sha': __import__('hashlib').sha256(orig_body.encode()).hexdigest()[:16]}


_Q = r'"((?:[^"\\]|\\.)*)"'


def _unq(s):
    return s.replace('\\"', '"').replace('\\\\', '\\').replace('\\n', '\n')


def preprocess(tmpl_text, read_include):
    """//@define NAME, //@include-template FILE, //@ifdef NAME .. //@endif (not nested): lets one template carry an
    optional group of functions (frame.rs.tmpl + the I/O functions for C15) without duplicating any contract text."""
    defs = set()
    out = []
    stack = [tmpl_text.split('\n')]
    skipping = False
    while stack:
        lines = stack.pop()
        i = 0
        while i < len(lines):
            st = lines[i].strip()
            i += 1
            if st.startswith('//@define '):
                defs.add(st.split()[1])
            elif st.startswith('//@include-template '):
                stack.append(lines[i:])
                stack.append(read_include(st.split()[1]).split('\n'))
                break
            elif st.startswith('//@ifdef '):
                skipping = st.split()[1] not in defs
            elif st.startswith('//@ifndef '):
                skipping = st.split()[1] in defs
            elif st == '//@endif':
                skipping = False
            elif skipping:
                pass
            elif st.startswith('//@include '):
                # plain includes are spliced here too, so that conditional sections work inside them
                out.append('//@included ' + st.split()[1])
                stack.append(lines[i:])
                stack.append(read_include(st.split()[1]).split('\n'))
                break
            elif st == '//@endif':
                skipping = False
            elif not skipping:
                out.append(lines[i - 1])
    return '\n'.join(out)


def expand_template(tmpl_text, read_repo, read_include=None):
    """read_repo(relpath) -> source text.  Returns (generated_text, report)."""
    out = []
    report = {'functions': [], 'types': [], 'consts': []}
    tmpl_text = preprocess(tmpl_text, read_include)
    lines = tmpl_text.split('\n')
    i = 0
    while i < len(lines):
        ln = lines[i]
        st = ln.strip()
        if st.startswith('//@included '):
            report.setdefault('includes', []).append(st.split()[1])
            i += 1
            continue
        if st.startswith('//@logmacros '):
            # //@logmacros debug! info! ...: from here on every invocation of these logging macros (expressions of type ())
            # in any extracted function is replaced by `()`, whether or not the function mentioned them when the template was written
            report['logmacros'] = st.split()[1:]
            i += 1
            continue
        if st.startswith('//@lit '):
            # //@lit <file> <owner> <fn> <CONST>: emit a trusted accessor for a byte-string literal found in that fn
            _, f, owner, fn, cname = st.split()
            _sig, body, line = find_fn(read_repo(f), owner, fn)
            if cname.startswith('inline:'):
                cname = cname[7:]
                ms = [m for m in find_inline_literals(body) if not re.search(r'const\s+\w+\s*:\s*&\[u8\]\s*=\s*$', body[:m.start()])]
                if len(ms) != 1:
                    raise ExtractionError('lit %s: expected one inline literal in %s, found %d' % (cname, fn, len(ms)))
                lit = ms[0].group(1)
                bs = decode_bytes_literal(lit)
                out.append('// generated from the inline literal b"%s" found in %s::%s (%s:%d); literal->bytes step is trusted' % (lit, owner, fn, f, line))
                out.append('#[verifier::external_body]')
                out.append("fn lit_%s() -> (r: &'static [u8])" % cname)
                out.append('    ensures r@ == seq![%s],' % ', '.join('%du8' % b for b in bs))
                out.append('{ b"%s" }' % lit)
                report.setdefault('literals', []).append({'const': cname, 'bytes': lit, 'file': f})
                i += 1
                continue
            rx = r'const\s+%s\s*:\s*&\[u8\]\s*=\s*b"((?:[^"\\]|\\.)*)"\s*;' % re.escape(cname)
            ms = list(re.finditer(rx, body))
            if len(ms) != 1:
                raise ExtractionError('lit %s: found %d times in %s' % (cname, len(ms), fn))
            lit = ms[0].group(1)
            if '\\' in lit or not all(32 <= ord(c) < 127 for c in lit):
                raise ExtractionError('lit %s is not plain ASCII' % cname)
            out.append('// generated from the literal b"%s" found in %s::%s (%s:%d); literal->bytes step is trusted' % (lit, owner, fn, f, line))
            out.append('#[verifier::external_body]')
            out.append('fn lit_%s() -> (r: &\'static [u8])' % cname)
            out.append('    ensures r@ == seq![%s],' % ', '.join('%du8' % ord(c) for c in lit))
            out.append('{ b"%s" }' % lit)
            report.setdefault('literals', []).append({'const': cname, 'bytes': lit, 'file': f})
            i += 1
            continue
        if st.startswith('//@type '):
            parts = st.split(None, 3)
            f, name = parts[1], parts[2]
            text, line = find_type(read_repo(f), name)
            if len(parts) > 3:
                md = re.search(r'derived ' + _Q, parts[3])
                if md:
                    # the template re-derives these traits (+ Structural) on the extracted type: make sure the real type
                    # derives them too, i.e. that `==` on it really is structural equality
                    src_lines = read_repo(f).split('\n')
                    k = line - 2
                    attrs = ''
                    while k >= 0 and (src_lines[k].strip().startswith('#[') or src_lines[k].strip().startswith('///') or not src_lines[k].strip()):
                        attrs += src_lines[k]
                        k -= 1
                    for tr in _unq(md.group(1)).split(','):
                        if not re.search(r'derive\([^)]*\b%s\b' % re.escape(tr.strip()), attrs):
                            raise ExtractionError('type %s does not derive %s in %s' % (name, tr.strip(), f))
                    parts[3] = parts[3].replace(md.group(0), '')
                    report.setdefault('type_notes', {})[name] = 'the template re-derives %s (+ Structural) on the extracted text; checked: the real type derives them, so `==` on it is structural equality' % _unq(md.group(1))
                for m in re.finditer(_Q + r' => ' + _Q, parts[3]):
                    old, new = _unq(m.group(1)), _unq(m.group(2))
                    if text.count(old) != 1:
                        raise ExtractionError('type %s: rewrite anchor %r occurs %d times' % (name, old, text.count(old)))
                    text = text.replace(old, new)
            out.append('// extracted from %s:%d (attributes and doc comments dropped)' % (f, line))
            out.append(text)
            report['types'].append({'type': name, 'file': f, 'line': line, 'note': report.get('type_notes', {}).get(name, 'attributes and doc comments dropped')})
            i += 1
            continue
        if st.startswith('//@const '):
            _, f, name = st.split()
            text, line = find_const(read_repo(f), name)
            out.append('// extracted from %s:%d' % (f, line))
            out.append(text)
            report['consts'].append({'const': name, 'file': f, 'line': line})
            i += 1
            continue
        if st.startswith('//@fn '):
            parts = st.split()
            f, owner, name = parts[1], parts[2], parts[3]
            ed = FnEdit(f, owner, name)
            cur = None
            i += 1
            while i < len(lines):
                l2 = lines[i]
                s2 = l2.strip()
                if s2 == '//@end':
                    break
                if s2.startswith('//@ '):
                    d = s2[4:]
                    if d == 'contract':
                        cur = ed.contract
                    elif d == 'entry':
                        cur = ed.entry
                    elif d == 'tail':
                        cur = ed.tail
                    elif d.startswith('ret '):
                        ed.ret = d.split()[1]
                        cur = None
                    elif d.startswith('nloops '):
                        ed.nloops = int(d.split()[1])
                        cur = None
                    elif d.startswith('loopstart '):
                        cur = ed.loopstarts.setdefault(int(d.split()[1]), [])
                    elif d.startswith('inline-lit '):
                        ed.inline_lits.append(d.split()[1])
                        cur = None
                    elif d.startswith('loopend '):
                        cur = ed.loopends.setdefault(int(d.split()[1]), [])
                    elif d.startswith('loop '):
                        cur = ed.loops.setdefault(int(d.split()[1]), [])
                    elif d.startswith('before_result '):
                        m = re.match(r'before_result ' + _Q + r'$', d)
                        if not m:
                            raise ExtractionError('bad directive: ' + s2)
                        cur = []
                        ed.before_result.append((_unq(m.group(1)), cur))
                    elif d.startswith('after '):
                        m = re.match(r'after ' + _Q + r'$', d)
                        if not m:
                            raise ExtractionError('bad directive: ' + s2)
                        cur = []
                        ed.afters.append((_unq(m.group(1)), cur))
                    elif d.startswith('rewrite '):
                        m = re.match(r'rewrite ' + _Q + r' => ' + _Q + r'(?: x(\d+))?$', d)
                        if not m:
                            raise ExtractionError('bad directive: ' + s2)
                        ed.rewrites.append((_unq(m.group(1)), _unq(m.group(2)), int(m.group(3) or 1)))
                        cur = None
                    elif d.startswith('sig '):
                        m = re.match(r'sig ' + _Q + r' => ' + _Q + r'$', d)
                        if not m:
                            raise ExtractionError('bad directive: ' + s2)
                        ed.sig_rw.append((_unq(m.group(1)), _unq(m.group(2))))
                        cur = None
                    elif d.startswith('dropmacro '):
                        m = re.match(r'dropmacro ' + _Q + r'$', d)
                        ed.dropmacros.append(_unq(m.group(1)))
                        cur = None
                    elif d.startswith('rewrite-re '):
                        m = re.match(r'rewrite-re ' + _Q + r' => ' + _Q + r'(?: x(\d+))?$', d)
                        if not m:
                            raise ExtractionError('bad directive: ' + s2)
                        ed.rewrites_re.append((_unq(m.group(1)), _unq(m.group(2)), int(m.group(3) or 1)))
                        cur = None
                    elif d.startswith('dropmacro-expr '):
                        m = re.match(r'dropmacro-expr ' + _Q + r'$', d)
                        ed.dropmacro_exprs.append(_unq(m.group(1)))
                        cur = None
                    elif d == 'guards-to-if':
                        ed.guards_to_if = True
                        cur = None
                    elif d == 'desugar-try':
                        ed.desugar_try = True
                        cur = None
                    elif d.startswith('bytes-const '):
                        ed.bytes_consts.append(d.split()[1])
                        cur = None
                    elif d.startswith('drop '):
                        m = re.match(r'drop ' + _Q + r'$', d)
                        if not m:
                            raise ExtractionError('bad directive: ' + s2)
                        ed.drops.append(_unq(m.group(1)))
                        cur = None
                    else:
                        raise ExtractionError('unknown directive: ' + s2)
                else:
                    if cur is None:
                        if s2:
                            raise ExtractionError('text outside a section in //@fn %s: %r' % (name, s2))
                    else:
                        cur.append(l2)
                i += 1
            else:
                raise ExtractionError('//@fn %s: missing //@end' % name)
            for _mac in report.get('logmacros', []):
                if _mac not in ed.dropmacro_exprs:
                    ed.dropmacro_exprs.append(_mac)
            text, info = ed.apply(read_repo(f))
            out.append('// ---- extracted verbatim from %s:%d  (%s) ----' % (f, info['line'], info['fn']))
            info['gen_line_start'] = sum(x.count('\n') + 1 for x in out) + 1
            out.append(text)
            info['gen_line_end'] = sum(x.count('\n') + 1 for x in out)
            report['functions'].append(info)
            i += 1
            continue
        out.append(ln)
        i += 1
    return '\n'.join(out), report
