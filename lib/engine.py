"""Property runner: Verus units + Kani units -> obligations -> evidence / VIOLATION / UNDECIDED."""
import hashlib
import json
import os
import re
import subprocess
import sys
import time

HERE = os.path.dirname(os.path.abspath(__file__))
ROOT = os.path.dirname(HERE)
sys.path.insert(0, HERE)
import extract   # noqa: E402
import kani      # noqa: E402
import plan      # noqa: E402
import verus     # noqa: E402

GEN_DIR = os.path.join(ROOT, '.cache', 'gen', str(os.getpid()))   # per process: checks may run concurrently
REPLAYS = os.path.join(ROOT, 'replays')
EVIDENCE = os.path.join(ROOT, 'evidence') if not os.environ.get('VERIF_NO_EVIDENCE') else os.path.join(ROOT, '.cache', 'evidence-scratch')


class Undecided(Exception):
    """No verdict (tool limit).  reach=True: the verifier could not be applied to the current code at all
    (lost anchor / unsupported construct), so a native differential search may still find a real failing input."""
    def __init__(self, msg, reach=False):
        Exception.__init__(self, msg)
        self.reach = reach


def known_findings():
    out = []
    p = os.path.join(ROOT, 'known_findings.txt')
    if os.path.exists(p):
        for ln in open(p):
            ln = ln.strip()
            m = re.match(r'finding:\s+property=(\S+)\s+obligation=(\S+)\s+(.*)', ln)
            if m:
                out.append({'property': m.group(1), 'obligation': m.group(2), 'what': m.group(3)})
    return out


# ------------------------------------------------------------------ Verus

def run_verus_unit(unit, tier):
    """unit: dict(tmpl=..., obligations=[...]).  Returns list of obligation records + unit meta."""
    os.makedirs(GEN_DIR, exist_ok=True)
    try:
        text, report = verus.generate(unit['tmpl'])
    except extract.ExtractionError as e:
        raise Undecided('extraction of %s failed (lost anchor / changed shape): %s' % (unit['tmpl'], e), reach=True)
    except FileNotFoundError as e:
        raise Undecided('extraction: %s' % e)
    gen_path = os.path.join(GEN_DIR, unit['tmpl'].replace('.tmpl', ''))
    open(gen_path, 'w').write(text)
    r = verus.run(gen_path)
    if r['status'] in ('timeout', 'tool-error'):
        raise Undecided('verus %s on %s' % (r['status'], unit['tmpl']))
    if r['status'] == 'rejected':
        raise Undecided('verus rejected the generated file %s before verification (unsupported construct / type error): %s'
                        % (gen_path, '; '.join('%s @gen:%s' % (d['msg'], d['line']) for d in r['diagnostics'][:4])), reach=True)
    crate = os.path.basename(gen_path)[:-3]
    funcs = r['functions']
    want = unit['obligations']
    failing = [o for o in want if not _fn_ok(funcs, crate, o)]
    if failing:
        # one retry with 4x resource limit: rules out a flaky/slow query before calling it a failure
        r2 = verus.run(gen_path, rlimit=40)
        if r2['status'] in ('ok', 'failed'):
            funcs2 = r2['functions']
            still = [o for o in failing if not _fn_ok(funcs2, crate, o)]
            if len(still) < len(failing):
                for o in failing:
                    if o not in still:
                        funcs[_fn_key(funcs, crate, o)] = funcs2[_fn_key(funcs2, crate, o)]
            r['retry'] = {'rlimit': 40, 'still_failing': still}
            if still:
                r['diagnostics'] = r2['diagnostics']
                r['stderr'] = r2['stderr']
    lost = {f['fn'].split('::')[-1]: f['lost_anchors'] for f in report['functions'] if f.get('lost_anchors')}
    obls = []
    for o in want:
        k = _fn_key(funcs, crate, o)
        if k is None:
            raise Undecided('obligation %s not present in Verus output for %s (function vanished from generated file?)' % (o, unit['tmpl']))
        f = funcs[k]
        diags = []
        if not f['success']:
            for d in r['diagnostics']:
                loc = verus.locate(report, d['line'] or 0)
                if loc and loc.split('::')[-1] == o.split('::')[-1]:
                    diags.append('%s @gen:%s' % (d['msg'], d['line']))
                elif loc is None and d['line'] and _line_in_fn(text, d['line'], o):
                    diags.append('%s @gen:%s' % (d['msg'], d['line']))
        rec = {'name': 'verus:%s:%s' % (crate, o), 'engine': 'verus/z3', 'ok': f['success'], 'time_ms': f['time_ms'],
               'detail': diags, 'bounded': False}
        if not f['success'] and o.split('::')[-1] in lost:
            rec['lost_anchors'] = lost[o.split('::')[-1]]
            rec['detail'] = diags + ['proof hints lost: ' + '; '.join(lost[o.split('::')[-1]])]
        obls.append(rec)
    # canary: must fail
    ck = _fn_key(funcs, crate, 'canary_must_fail')
    canary = None
    if ck is not None:
        canary = not funcs[ck]['success']
        if not canary:
            raise Undecided('vacuity canary verified in %s: the verifier accepts `false` (contradictory assumption?)' % unit['tmpl'])
    meta = {'tmpl': unit['tmpl'], 'gen': gen_path, 'cmd': r['cmd'], 'wall_s': r['wall_s'], 'smt_ms': r.get('smt_ms'),
            'verified_total': r.get('verified'), 'errors_total': r.get('errors'), 'version': r.get('verus_version'),
            'canary_failed_as_expected': canary, 'extraction': report, 'trusted': verus.trusted_items(text),
            'stderr_tail': r.get('stderr', '')[-3000:] if any(not o['ok'] for o in obls) else ''}
    return obls, meta


def _fn_key(funcs, crate, o):
    cands = [k for k in funcs if k == '%s::%s' % (crate, o) or k.endswith('::' + o)]
    if len(cands) == 1:
        return cands[0]
    exact = [k for k in cands if k == '%s::%s' % (crate, o)]
    return exact[0] if exact else None


def _fn_ok(funcs, crate, o):
    k = _fn_key(funcs, crate, o)
    return k is not None and funcs[k]['success']


def _line_in_fn(text, line, o):
    name = o.split('::')[-1]
    lines = text.split('\n')
    for i in range(min(line, len(lines)) - 1, -1, -1):
        m = re.search(r'\bfn\s+(\w+)', lines[i])
        if m and not lines[i].strip().startswith('//'):
            return m.group(1) == name
    return False


# ------------------------------------------------------------------ Kani

def eval_harness(h, r):
    """h: plan harness dict; r: parsed result or None.  Returns (ok, detail)."""
    if r is None:
        raise Undecided('no result parsed for kani harness %s' % h['name'])
    kind = h.get('kind', 'verify')
    if r['status'] == 'UNKNOWN':
        raise Undecided('kani harness %s: no verdict (timeout / out of memory): %s' % (h['name'], r['raw'][-300:]))
    unw = [c for c in r['failed_checks'] if 'unwinding assertion' in c['desc'] or 'recursion unwinding' in c['desc']]
    if r['failed_checks'] and len(unw) == len(r['failed_checks']):
        # only the loop bound of the harness is exceeded: the code's loop structure changed, no verdict
        raise Undecided('kani harness %s: unwinding bound too small for the current code (loop bound changed)' % h['name'])
    if kind == 'verify':
        if r['status'] != 'SUCCESSFUL':
            return False, ['failed check: %s (%s:%d in %s)' % (c['desc'], c['file'], c['line'], c['fn']) for c in r['failed_checks']] or [r['raw'][-400:]]
        if r['cover_sat'] != r['cover_total'] or r['cover_total'] < h.get('covers', 1):
            raise Undecided('kani harness %s: vacuity guard: %d of %d cover points reachable (expected all, >= %d)'
                            % (h['name'], r['cover_sat'], r['cover_total'], h.get('covers', 1)))
        return True, ['%d checks, %d/%d covers' % (r.get('checks', 0), r['cover_sat'], r['cover_total'])]
    if kind == 'never_returns':
        if r['cover_total'] < 1:
            raise Undecided('kani harness %s: return cover point missing' % h['name'])
        if r['cover_sat'] > 0:
            return False, ['the call RETURNED for some out-of-domain input (cover point after the call is reachable)']
        bad = [c for c in r['failed_checks'] if not any(a in c['fn'] or a in c['desc'] for a in h['allowed'])]
        if bad:
            return False, ['unexpected failing check: %s (%s:%d in %s)' % (c['desc'], c['file'], c['line'], c['fn']) for c in bad]
        if not r['failed_checks']:
            raise Undecided('kani harness %s: neither returns nor panics (vacuous set-up?)' % h['name'])
        return True, ['never returns; only failing check(s): ' + '; '.join(sorted(set(c['fn'] for c in r['failed_checks'])))]
    if kind == 'must_fail':
        if r['status'] == 'FAILED':
            return True, ['canary failed as expected']
        raise Undecided('kani canary %s did not fail: verification is vacuous' % h['name'])
    raise Undecided('unknown harness kind %s' % kind)


def run_kani_units(units, tier, jobs, keep=False, skip_playback=False):
    """units: list of dict(package=..., harnesses=[...]).  One scratch copy for all."""
    obls, metas = [], []
    und_parts = []
    todo = []
    for u in units:
        hs = [h for h in u['harnesses'] if tier == 'thorough' or h.get('tier', 'quick') == 'quick']
        if hs:
            todo.append((u, hs))
    if not todo:
        return obls, metas, None, und_parts
    try:
        sc = kani.Scratch(keep=keep)
        sc.__enter__()
    except kani.ToolLimit as e:
        raise Undecided(str(e))
    try:
        for u, hs in todo:
            names = [h['name'] for h in hs] + [u.get('canary', 'canary_must_fail')]
            try:
                res, meta = kani.run_harnesses(sc, u['package'], names, jobs=jobs, timeout=u.get('timeout', 3600), isolated=tuple(u.get('isolated', ())))
            except kani.ToolLimit as e:
                if obls:
                    # verdicts (possibly failed obligations) of the units already run must not be lost because a later
                    # unit of the same property hits a tool limit: that unit becomes an undecided PART
                    und_parts.append('kani unit %s %s: %s' % (u['package'], ','.join(names[:3]), str(e)[:1500]))
                    continue
                raise Undecided(str(e))
            can = res.get(u.get('canary', 'canary_must_fail'))
            eval_harness({'name': 'canary_must_fail', 'kind': 'must_fail'}, can)
            for h in hs:
                try:
                    ok, detail = eval_harness(h, res.get(h['name']))
                except Undecided as e:
                    # one harness without a verdict (timeout, out of memory, dropped fragile module, vacuity guard) does not
                    # discard the verdicts of the others
                    und_parts.append(str(e))
                    continue
                if res.get(h['name'], {}).get('from_cache'):
                    detail = detail + ['verdict reused: identical inputs (tree hash %s) verified at %s' % (meta.get('tree_hash', '')[:12], res[h['name']].get('cached_at', '?'))]
                rec = {'name': 'kani:%s:%s' % (u['package'], h['name']), 'engine': 'kani/cbmc', 'ok': ok,
                       'time_ms': int(1000 * (res[h['name']].get('time_s') or 0)), 'detail': detail,
                       'bounded': bool(h.get('bounded')), 'bound': h.get('bounded') or '',
                       'checks': res[h['name']].get('checks', 0), 'package': u['package'], 'harness': h['name'],
                       'kind': h.get('kind', 'verify')}
                if not ok:
                    rec['raw'] = res[h['name']]['raw']
                    n_playbacks = sum(1 for x in obls if x.get('concrete_playback') is not None or x.get('native_replay') is not None)
                    if n_playbacks < 2 and not skip_playback:   # counterexample + native replay for the first two failing harnesses of a run (each costs minutes)
                        try:
                            rec['concrete_playback'] = kani.concrete_playback(sc, u['package'], h['name'])
                            rec['native_replay'] = kani.native_playback(sc, u['package'], h['name'], rec['concrete_playback'])
                        except Exception as e:  # replay material is best effort
                            rec.setdefault('concrete_playback', None)
                            rec['native_replay'] = {'ran': False, 'reason': str(e)[:200]}
                obls.append(rec)
            metas.append({'package': u['package'], 'cmd': meta['cmd'], 'wall_s': meta['wall_s'], 'overlay': sc.applied, 'reused_from_cache': meta.get('reused_from_cache', []), 'tree_hash': meta.get('tree_hash', '')})
    finally:
        sc.__exit__(None, None, None)
    return obls, metas, sc.dir, und_parts


# ------------------------------------------------------------------ property

def run_property(pid, tier, seed, args):
    try:
        return _run_property(pid, tier, seed, args)
    finally:
        import shutil
        shutil.rmtree(GEN_DIR, ignore_errors=True)


def _run_property(pid, tier, seed, args):
    t0 = time.time()
    P = plan.PROPS[pid]
    os.makedirs(REPLAYS, exist_ok=True)
    os.makedirs(EVIDENCE, exist_ok=True)
    obls, vmetas = [], []
    undecided = []   # parts that could not be decided; a violation found elsewhere is still reported
    for unit in P.get('verus', []):
        if tier != 'thorough' and unit.get('tier', 'quick') != 'quick':
            continue
        try:
            o, m = run_verus_unit(unit, tier)
        except Undecided as e:
            if not e.reach:
                undecided.append(str(e))
                continue
            # The deductive verifier cannot reach the changed code. Only a concrete failing input found by running
            # the real code against the executable spec may still raise an alarm; otherwise this part is UNDECIDED
            # (the other units of the property - Kani harnesses on the unmodified code - still run and may decide).
            import witness
            w = witness.search(pid)
            if w is None:
                undecided.append(str(e))
                continue
            o = [{'name': 'verus:%s:<unreachable>' % unit['tmpl'].replace('.rs.tmpl', ''), 'engine': 'native/differential',
                  'ok': False, 'time_ms': 0, 'bounded': False, 'witness': w,
                  'detail': ['verifier could not be applied (%s); native differential search found a failing input: %s expected %s got %s'
                             % (str(e)[:200], w['input'], w['expected'], w['actual'])]}]
            m = None
        obls += o
        if m is not None:
            vmetas.append(m)
    extra_obls, extra_meta = [], []
    for tool in P.get('tools', []):
        if tier != 'thorough' and tool.get('tier', 'quick') != 'quick':
            continue
        import tools as toolmod
        try:
            o, m = toolmod.run(tool, tier, seed)
        except Undecided as e:
            undecided.append(str(e))
            continue
        extra_obls += o
        extra_meta.append(m)
    obls += extra_obls
    kmetas = []
    try:
        # a native run of this check already produced a concrete failing input on the real code: Kani's own counterexample
        # extraction (minutes per harness) is skipped, the failed obligations are still reported
        have_input = any((not o['ok']) and o.get('witness') for o in obls)
        kobls, kmetas, _, kund = run_kani_units(P.get('kani', []), tier, args.jobs, keep=args.keep, skip_playback=have_input)
        obls += kobls
        undecided += kund
    except Undecided as e:
        undecided.append(str(e))
    # ---- verdict
    proved = [o for o in obls if not o['bounded']]
    bounded = [o for o in obls if o['bounded']]
    failed = [o for o in obls if not o['ok']]
    kf = [k for k in known_findings() if k['property'] == pid]
    violations = []
    for o in failed:
        if o.get('lost_anchors') and not o.get('witness'):
            import witness
            w = witness.search(pid, o['name'])
            if w is None:
                # not an alarm by itself; other failed obligations of this run (e.g. a Kani harness on the unmodified code) still count
                undecided.append('obligation %s no longer verifies, but its proof hints lost their anchors (%s) and no failing input was found: refactoring or violation undecided'
                                 % (o['name'], '; '.join(o['lost_anchors'])))
                continue
            o['witness'] = w
        hit = [k for k in kf if k['obligation'] == o['name']]
        if hit:
            print('KNOWN-FINDING: property=%s %s' % (pid, hit[0]['what']))
            continue
        violations.append(o)
    trusted = []
    for m in vmetas:
        trusted += m['trusted']
    trusted += P.get('trusted', [])
    knames = set(o['harness'] for o in obls if o.get('harness'))
    if knames:
        trusted += kani.harness_stubs(knames)
    wall = time.time() - t0
    level = P['level']
    cov = {
        'obligations': len(proved),
        'discharged': len([o for o in proved if o['ok']]),
        'checker_cmd': ' ; '.join([m['cmd'] for m in vmetas] + [m['cmd'] for m in kmetas] + [m.get('cmd', '') for m in extra_meta]) or 'none',
        'trusted_base': sorted(set(trusted)),
        'functions_under_contract': P.get('functions', []),
        'obligation_list': [{'name': o['name'], 'engine': o['engine'], 'ok': o['ok'], 'time_ms': o['time_ms'], 'note': '; '.join(o['detail'])[:300]} for o in proved],
        'bounded_standins': [{'name': o['name'], 'bound': o['bound'], 'ok': o['ok'], 'time_ms': o['time_ms'], 'note': '; '.join(o['detail'])[:300]} for o in bounded],
        'bounded_note': 'bounded stand-ins are listed separately and are NOT counted in obligations/discharged',
        'backends': sorted(set(o['engine'] for o in obls)),
        'solver_time_s': round(sum(o['time_ms'] for o in obls) / 1000.0, 2),
        'verus_units': [{'tmpl': m['tmpl'], 'cmd': m['cmd'], 'wall_s': round(m['wall_s'], 2), 'smt_ms': m['smt_ms'],
                         'functions_verified_in_file': m['verified_total'], 'canary_failed_as_expected': m['canary_failed_as_expected'],
                         'extracted': [{'fn': f['fn'], 'from': '%s:%d' % (f['file'], f['line']), 'body_sha256_16': f['body_sha'], 'rewrites': f['edits']} for f in m['extraction']['functions']],
                         'extracted_types': [{'type': t['type'], 'from': '%s:%d' % (t['file'], t['line']), 'note': t.get('note', '')} for t in m['extraction'].get('types', [])]}
                        for m in vmetas],
        'kani_units': [{'package': m['package'], 'cmd': m['cmd'], 'wall_s': round(m['wall_s'], 2), 'overlay': m['overlay'], 'verdicts_reused_from_content_addressed_cache': m.get('reused_from_cache', []), 'tree_hash': m.get('tree_hash', '')} for m in kmetas],
        'tools': extra_meta,
        'samples': [o['name'] + ' :: ' + '; '.join(o['detail'])[:200] for o in obls[:6]],
        'explanation': P.get('explanation', ''),
        'evaluations': len(obls),
        'distinct_nontrivial': len(set(o['name'] for o in obls)),
        'rule': 'one evaluation per proof obligation (a Verus function/lemma or a Kani harness); distinct by obligation name; every one is non-trivial (vacuity canaries and cover points are checked separately)',
        'exhaustive': False,
    }
    ev = {'property_id': pid, 'tier': tier, 'seed': seed, 'level': level, 'coverage': cov,
          'assumptions': P.get('assumptions', []), 'wall_s': round(wall, 2), 'violations': len(violations)}
    with open(os.path.join(EVIDENCE, pid + '.json'), 'w') as f:
        json.dump(ev, f, indent=1)
    for o in obls:
        print('%-9s %-70s %s%s' % ('ok' if o['ok'] else 'FAILED', o['name'], '[bounded: %s] ' % o['bound'] if o['bounded'] else '', '; '.join(o['detail'])[:160]))
    if undecided and not violations:
        raise Undecided(' || '.join(undecided))
    for u in undecided:
        print('UNDECIDED-PART property=%s reason=%s' % (pid, u.replace('\n', ' | ')[:600]))
    if violations:
        shared = [v['witness'] for v in violations if v.get('witness')]
        for o in violations:
            if not (o.get('concrete_playback') or o.get('witness')) and shared:
                # another failed obligation of this run carries a concrete failing input for the same change
                o['witness'] = shared[0]
            path = write_replay(pid, o, vmetas)
            has_input = bool(o.get('concrete_playback') or o.get('witness'))
            print('VIOLATION property=%s replay=%s%s' % (pid, path, '' if has_input else ' no-failing-input-found'))
        return 1
    print('PASS property=%s tier=%s obligations=%d discharged=%d bounded_standins=%d wall=%.1fs'
          % (pid, tier, cov['obligations'], cov['discharged'], len(bounded), wall))
    return 0


def write_replay(pid, o, vmetas):
    safe = re.sub(r'[^A-Za-z0-9_.-]+', '_', o['name'])
    path = os.path.join(REPLAYS, '%s-%s.json' % (pid, safe))
    rec = {'property': pid, 'failed_obligation': o['name'], 'engine': o['engine'], 'detail': o['detail'],
           'verifier_output': o.get('raw', ''), 'concrete_playback_test': o.get('concrete_playback'),
           'witness': o.get('witness'), 'native_replay_of_counterexample': o.get('native_replay'),
           'package': o.get('package'), 'harness': o.get('harness')}
    if o['engine'].startswith('verus'):
        for m in vmetas:
            if m['stderr_tail']:
                rec['verifier_output'] = m['stderr_tail']
                rec['generated_file'] = 'regenerate with: ./check %s --show-extraction' % pid
        # try to find a concrete failing input natively (differential search against the executable spec)
        try:
            import witness
            w = witness.search(pid, o['name'])
            if w:
                rec['witness'] = w
                o['witness'] = w
        except Exception as e:
            rec['witness_search_error'] = str(e)[:300]
    with open(path, 'w') as f:
        json.dump(rec, f, indent=1)
    return path


def write_undecided_evidence(pid, tier, seed, reason, wall):
    os.makedirs(EVIDENCE, exist_ok=True)
    ev = {'property_id': pid, 'tier': tier, 'seed': seed, 'level': 'other',
          'coverage': {'explanation': 'UNDECIDED (tool limit, no verdict): ' + reason[:1000], 'obligations': 0, 'discharged': 0},
          'assumptions': [], 'wall_s': round(wall, 2), 'violations': 0}
    with open(os.path.join(EVIDENCE, pid + '.json'), 'w') as f:
        json.dump(ev, f, indent=1)


def show_extraction(pid):
    P = plan.PROPS[pid]
    for unit in P.get('verus', []):
        text, report = verus.generate(unit['tmpl'])
        print(text)
        print(json.dumps(report, indent=1), file=sys.stderr)
    return 0


def replay(pid, path, args):
    rec = json.load(open(path))
    print('replay of %s: failed obligation %s (%s)' % (pid, rec['failed_obligation'], rec['engine']))
    if rec.get('witness'):
        import witness
        return witness.replay(rec['witness'])
    if rec.get('concrete_playback_test') and rec.get('harness'):
        # re-run the harness on the current tree: fails iff the violation is still present
        P = plan.PROPS[pid]
        for u in P.get('kani', []):
            for h in u['harnesses']:
                if h['name'] == rec['harness']:
                    obls, _, _, _ = run_kani_units([{'package': u['package'], 'harnesses': [dict(h, tier='quick')]}], 'quick', 4)
                    print('concrete counterexample recorded at detection time:\n' + rec['concrete_playback_test'])
                    return 0 if all(o['ok'] for o in obls) else 1
    print(rec.get('verifier_output', '')[-3000:])
    print('no concrete input recorded; re-run ./check %s to re-decide the obligation' % pid)
    return 1
