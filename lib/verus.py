"""Run Verus on a file generated from a template + the current /repo sources."""
import json
import os
import re
import subprocess
import sys
import time

HERE = os.path.dirname(os.path.abspath(__file__))
ROOT = os.path.dirname(HERE)
sys.path.insert(0, HERE)
import extract  # noqa: E402

REPO = os.environ.get('VERIF_REPO', '/repo')
TRUST_RE = re.compile(r'\b(assume_specification|external_body|external_type_specification|uninterp\s+spec\s+fn|axiom\s+fn|pub\s+trait\s+(?:Read|Write)\b|admit\s*\(|assume\s*\()')


def generate(tmpl_name, repo=None):
    repo = repo or REPO
    tmpl = open(os.path.join(ROOT, 'contracts', tmpl_name)).read()

    def read_repo(rel):
        return open(os.path.join(repo, rel)).read()

    def read_include(name):
        return open(os.path.join(ROOT, 'contracts', name)).read()

    text, report = extract.expand_template(tmpl, read_repo, read_include)
    return text, report


def trusted_items(text):
    """Mechanical scan of the generated file for assumed / trusted items."""
    items = []
    lines = text.split('\n')
    for n, ln in enumerate(lines, 1):
        st = ln.strip()
        if st.startswith('//'):
            continue
        m = TRUST_RE.search(ln)
        if m:
            desc = st
            if 'external_body' in st and n < len(lines):
                # name the function the attribute is attached to
                k = n
                while k < len(lines) and (lines[k].strip().startswith('#[') or not lines[k].strip()):
                    k += 1
                if k < len(lines):
                    desc = 'external_body: ' + lines[k].strip()
            items.append('%s @gen:%d: %s' % (m.group(1).split()[0], n, desc[:170]))
    return items


def run(gen_path, rlimit=None, extra=None, timeout=1800):
    cmd = ['verus', gen_path, '--output-json', '--time', '--multiple-errors', '5']
    if rlimit:
        cmd += ['--rlimit', str(rlimit)]
    if extra:
        cmd += extra
    t0 = time.time()
    try:
        p = subprocess.run(cmd, capture_output=True, text=True, timeout=timeout, cwd=os.path.dirname(gen_path))
    except subprocess.TimeoutExpired:
        return {'status': 'timeout', 'cmd': ' '.join(cmd), 'wall_s': time.time() - t0}
    wall = time.time() - t0
    res = {'cmd': ' '.join(cmd), 'wall_s': wall, 'exit': p.returncode, 'stderr': p.stderr}
    try:
        # stdout is JSON (possibly preceded by dbg lines)
        k = p.stdout.index('{')
        j = json.loads(p.stdout[k:])
    except Exception:
        res['status'] = 'tool-error'
        res['stdout'] = p.stdout[-4000:]
        return res
    vr = j.get('verification-results', {})
    res['verified'] = vr.get('verified', 0)
    res['errors'] = vr.get('errors', 0)
    funcs = {}
    smt = j.get('times-ms', {}).get('smt', {})
    for mod in smt.get('smt-run-module-times', []):
        for fb in mod.get('function-breakdown', []):
            funcs[fb['function']] = {'success': fb['success'], 'time_ms': fb.get('time', 0), 'rlimit': fb.get('rlimit', 0), 'mode': fb.get('mode:', '')}
    res['functions'] = funcs
    res['smt_ms'] = smt.get('smt-run', 0)
    res['total_ms'] = j.get('times-ms', {}).get('total', 0)
    res['verus_version'] = j.get('verus', {}).get('version', '')
    if vr.get('encountered-vir-error') or (not vr.get('success') and res['errors'] == 0):
        # rejected before verification: syntax / unsupported construct / type error => tool limit, not a violation
        res['status'] = 'rejected'
    elif vr.get('success') and res['errors'] == 0:
        res['status'] = 'ok'
    else:
        res['status'] = 'failed'
    res['diagnostics'] = parse_diagnostics(p.stderr, os.path.basename(gen_path))
    return res


def parse_diagnostics(stderr, fname):
    """Return list of {msg, line} for each `error:` block that points into the generated file."""
    out = []
    cur = None
    for ln in stderr.split('\n'):
        m = re.match(r'^(error|warning)(?:\[[^\]]*\])?: (.*)', ln)
        if m:
            cur = {'level': m.group(1), 'msg': m.group(2).strip(), 'line': None, 'lines': []}
            out.append(cur)
            continue
        m = re.match(r'^\s*--> (.+?):(\d+):(\d+)', ln)
        if m and cur is not None and cur['line'] is None and os.path.basename(m.group(1)) == fname:
            cur['line'] = int(m.group(2))
        m = re.match(r'^\s*(\d+)\s*\|', ln)
        if m and cur is not None:
            cur['lines'].append(int(m.group(1)))
    return [d for d in out if d['level'] == 'error' and not d['msg'].startswith('aborting')]


def locate(report, line):
    for f in report.get('functions', []):
        if f['gen_line_start'] <= line <= f['gen_line_end']:
            return f['fn']
    return None


if __name__ == '__main__':
    name = sys.argv[1]
    text, report = generate(name)
    os.makedirs('/tmp/vx', exist_ok=True)
    gp = '/tmp/vx/' + name.replace('.tmpl', '')
    open(gp, 'w').write(text)
    r = run(gp)
    print(r['status'], 'verified', r.get('verified'), 'errors', r.get('errors'), 'wall %.1fs' % r['wall_s'])
    for d in r.get('diagnostics', []):
        print('  ', d['msg'], '@', d['line'], locate(report, d['line'] or 0))
    if r['status'] != 'ok':
        print(r.get('stderr', '')[-6000:])
    for fn, v in sorted(r.get('functions', {}).items()):
        if not fn.startswith('vstd::'):
            print('   %-50s %s %dms' % (fn, 'ok' if v['success'] else 'FAIL', v['time_ms']))
