"""Per-property plan: which obligations decide which property."""


def H(name, kind='verify', tier='quick', bounded=None, covers=1, allowed=None):
    d = {'name': name, 'kind': kind, 'tier': tier, 'covers': covers}
    if bounded:
        d['bounded'] = bounded
    if allowed:
        d['allowed'] = allowed
    return d


A_USIZE = 'A-usize64: usize is 64 bits (`global size_of usize == 8`); 32-bit targets are out of scope'
A_COW = 'A-cow: Cow<[u8]> deref / to_mut view the same bytes (std contract, assumed via assume_specification + axioms in contracts/std_prelude.rs)'
A_FILL = 'A-fill: <[T]>::fill sets every element of the slice; Vec range IndexMut has the slice IndexMut contract of vstd'
A_INTO = 'A-into: Into<Cow<[u8]>> conversions of Vec<u8> / &[u8] are functions of their argument and preserve the bytes'
A_TOOLS = 'A-tools: soundness of Verus 0.2026.09.13 + Z3, Kani 0.68 + CBMC 6.11 (incl. Kani\'s allocator model)'
A_DEBUG = 'A-overflow-checks: arithmetic overflow is checked as in the dev/test profile (an overflow is a panic, i.e. a failed obligation)'

PAGE_FNS = ['flipdot_core::page::Page::{new, from_bytes, id, width, height, get_pixel, set_pixel, set_all_pixels, as_bytes, '
            'bytes_per_column, data_bytes, total_bytes, byte_bit_indices} (Verus, extracted verbatim)']

PROPS = {}

PROPS['C06'] = {
    'level': 'proof',
    'verus': [{'tmpl': 'page.rs.tmpl', 'obligations': [
        'Page::byte_bit_indices', 'Page::get_pixel', 'Page::set_pixel', 'Page::set_all_pixels', 'Page::id',
        'Page::as_bytes', 'Page::width', 'Page::height', 'Page::bytes_per_column', 'Page::data_bytes', 'Page::total_bytes',
        'lemma_c06_set_pixel', 'lemma_c06_set_all', 'lemma_pix_injective', 'lemma_pix_in_data', 'lemma_bits', 'lemma_all_bits',
        'lemma_total_len', 'lemma_dims_bound']}],
    'kani': [{'package': 'flipdot-core', 'harnesses': [
        H('c06_oob_get_never_returns', kind='never_returns', allowed=['byte_bit_indices']),
        H('c06_oob_set_never_returns', kind='never_returns', allowed=['byte_bit_indices']),
        H('c06_oob_never_returns_any_dims', kind='never_returns', allowed=['byte_bit_indices']),
        H('c06_inbounds_get_returns', covers=2),
    ]}],
    'functions': PAGE_FNS,
    'assumptions': [A_USIZE, A_COW, A_FILL, A_TOOLS, A_DEBUG,
                    'out-of-bounds "must panic" is decided by Kani for ALL u32 dimensions and coordinates (c06_oob_never_returns_any_dims, on a page value with an empty byte image: the bounds check precedes every access) and additionally on well-formed pages over borrowed buffers up to 512 bytes; the in-bounds behaviour is proved by Verus for all u32 dimensions',
                    'sequences of set/clear/set-all need no exploration: every operation preserves the representation invariant wf() and is characterised on the whole byte view (inductive)'],
    'explanation': 'C06 = whole-view postconditions of set_pixel / set_all_pixels / get_pixel on the real text + lemmas lemma_c06_set_pixel / lemma_c06_set_all deriving the property statement from those postconditions; out-of-bounds panics via Kani never-returns harnesses.',
}

PROPS['C07'] = {
    'level': 'proof',
    'verus': [{'tmpl': 'page.rs.tmpl', 'obligations': [
        'Page::new', 'Page::from_bytes', 'Page::bytes_per_column', 'Page::data_bytes', 'Page::total_bytes',
        'Page::byte_bit_indices', 'Page::get_pixel', 'Page::as_bytes', 'Page::id', 'Page::width', 'Page::height',
        'lemma_pix_injective', 'lemma_pix_in_data', 'lemma_total_len', 'lemma_padded_unique', 'lemma_dims_bound', 'lemma_bits']}],
    'kani': [],
    'functions': PAGE_FNS,
    'assumptions': [A_USIZE, A_COW, A_INTO, A_TOOLS, A_DEBUG,
                    'derived PartialEq on Page is field-wise: "equals the page that produced those bytes" is proved as equality of width, height and byte view',
                    'vstd specifications of Vec::with_capacity / extend_from_slice / resize'],
    'explanation': 'C07 = postconditions of Page::new (exact byte image), Page::from_bytes (Ok iff length == padded size; exposes exactly the bytes given), the three size functions (ceil8, 4 + w*ceil8(h), next multiple of 16) and byte_bit_indices/get_pixel (byte 4 + x*ceil8(h) + y/8, bit y%8, LSB first) for all u32 dimensions, plus lemma_pix_injective (distinct pixels never share a bit).',
}

MSG_FNS = ['flipdot_core::message::<impl From<Frame> for Message>::from (Kani, full domain, loop-free)',
           'flipdot_core::message::<impl From<Message> for Frame>::from (Kani, full domain, loop-free)',
           'flipdot_core::frame::{Frame::new, Data::try_new, Frame::data, Frame::into_data, Frame::address, Frame::message_type} (executed symbolically by the same harnesses)']

PROPS['C04'] = {
    'level': 'proof',
    'kani': [{'package': 'flipdot-core', 'harnesses': [
        H('c04_classification_follows_table', covers=11),
        H('c04_frame_message_frame_identity', covers=4),
        H('c04_identity_owned_data', covers=2),
    ]}],
    'functions': MSG_FNS,
    'assumptions': [A_TOOLS, A_DEBUG,
                    'the protocol code table in kani/core_message.rs (13 state codes, 6+6 operation codes, hello/query/goodbye FF/00/55, pixels complete 06/00) is a third transcription, independent of both conversion functions',
                    'forwarded data (Unknown, SendData) is checked as pointer+length identity of the borrowed block, which implies byte equality; owned data is checked byte-wise for lengths 0..=3'],
    'explanation': 'Loop-free Kani harnesses over the complete input domain (any u16 address, any u8 type, data = any prefix of length 0..=255 of a symbolic 255-byte array): a complete proof, not a bounded one.',
}

PROPS['C19'] = {
    'level': 'proof',
    'kani': [{'package': 'flipdot-core', 'harnesses': [
        H('c19_blocks_self_consistent', covers=3),
        H('c19_family_id_unique', covers=1),
        H('c19_decode_total_and_exact', covers=5, bounded=None),
    ]}],
    'functions': ['flipdot_core::sign_type::SignType::{from_bytes, to_bytes, dimensions} (Kani, loop-free)'],
    'assumptions': [A_TOOLS, A_DEBUG],
    'explanation': 'All 11 variants (exhaustive match => a new variant is a compile error in the harness) and every byte string of length 0..=64 with arbitrary contents.',
}

A_REGEX = 'A-regex-engine: the regex crate implements the pattern it is given (its pattern is proved equivalent to the documented one by regexeq on every run; the engine itself is exercised by the bounded native differential run)'
A_CHUNKS = 'A-chunks: <[u8]>::chunks(2).map(f).collect::<Vec<_>>() applies f to consecutive 2-byte chunks in order (std contract; bounded Kani check chunks_map_collect_pipeline for 0..=3 pairs)'
A_CAP = 'A-capacity: Vec::with_capacity(n) allocates exactly n (the three assert_eq!(len, capacity) self-checks are dropped from the Verus text and checked by Kani at data lengths {1,2,16} only)'
A_SPEC = 'A-transcription: the spec functions exist in three transcriptions (Verus contracts/codec_spec.rs, Kani harness modules, witness/src/refspec.rs) that correspond by inspection'

FRAME_FNS = ['flipdot_core::frame::{Data::try_new, Frame::new, Frame::payload, Frame::to_bytes, Frame::to_bytes_with_newline, Frame::from_bytes} (Verus, extracted; rewrites listed per function in verus_units)',
             'flipdot_core::frame::checksum (Kani proof_for_contract: requires len <= 259, ensures == lrc)',
             'flipdot_core::frame::parse_hex::<u8>, parse_hex::<u16> (Kani, every 2-/4-character hex string)']

FRAME_VERUS_ENC = ['Data::try_new', 'Frame::new', 'Frame::payload', 'Frame::to_bytes', 'Frame::to_bytes_with_newline']
FRAME_KANI_CONTRACTS = [H('checksum_contract', covers=0), H('parse_hex_u8_contract', covers=2), H('parse_hex_u16_contract', covers=2)]
FRAME_KANI_BOUNDED = [
    H('frame_capacity_asserts_len1', bounded='data length 1'),
    H('frame_capacity_asserts_len2', bounded='data length 2'), H('frame_capacity_asserts_len16', bounded='data length 16'),
    H('chunks_map_collect_pipeline', bounded='exactly 3 hex pairs', covers=1),
    H('frame_capacity_asserts_len64', bounded='data length 64', tier='thorough'),
]

PROPS['C01'] = {
    'level': 'proof',
    'verus': [{'tmpl': 'frame.rs.tmpl', 'obligations': FRAME_VERUS_ENC + ['Frame::from_bytes', 'c01_wire_trip', 'c01_wire_trip_newline',
               'lemma_roundtrip', 'lemma_roundtrip_nl', 'lemma_enc_format', 'lemma_sum_zero', 'lemma_enc_chars', 'lemma_pairs',
               'lemma_nibbles', 'lemma_digit', 'lemma_addr', 'lemma_dec_strip', 'lemma_shape_groups', 'lemma_group_names',
               'lemma_hex_num2', 'lemma_hex_num4', 'lemma_lrc_is_neg_sum']}],
    'tools': [{'kind': 'regexeq'}, {'kind': 'witness', 'domains': ['frame-encode'], 'bound': 'sampled frames: 12 addresses x 12 types x 15 lengths x 3 patterns + 3000 random'}],
    'kani': [{'package': 'flipdot-core', 'harnesses': FRAME_KANI_CONTRACTS + FRAME_KANI_BOUNDED}],
    'functions': FRAME_FNS,
    'assumptions': [A_USIZE, A_COW, A_INTO, A_REGEX, A_CHUNKS, A_CAP, A_SPEC, A_TOOLS, A_DEBUG,
                    'owned vs borrowed data: contracts speak about the byte view of the Cow only (A-cow)',
                    'Data has a Verus type invariant (len <= 255) checked at its only construction site Data::try_new; other construction sites would need the same proof'],
    'explanation': 'C01 = to_bytes == enc (loop invariant over hex_pairs), to_bytes_with_newline == enc + CRLF, from_bytes == dec (contract D), Data type invariant, and the lemmas dec(enc(f)) == Ok(f), dec(enc(f)+CRLF) == Ok(f), lemma_enc_format (shape, upper case, big-endian address, bytes sum to 0 mod 256).',
}

PROPS['C03'] = {
    'level': 'proof',
    'verus': [{'tmpl': 'frame.rs.tmpl', 'obligations': ['Frame::from_bytes', 'Data::try_new', 'Frame::new', 'Frame::payload',
               'lemma_reencode', 'lemma_shape_groups', 'lemma_group_names', 'lemma_hex_num2', 'lemma_hex_num4', 'lemma_payload_of_view',
               'lemma_byte_nibbles', 'lemma_digit_of_val', 'lemma_pairs']}],
    'tools': [{'kind': 'regexeq'}, {'kind': 'witness', 'domains': ['frame-decode'], 'bound': 'all strings of length <= 4 over a 12-symbol structural alphabet around 4 skeletons; single-fault mutations of 30 valid frames; long frames with >= 255 pairs; 20000 random strings'}],
    'kani': [{'package': 'flipdot-core', 'harnesses': FRAME_KANI_CONTRACTS + [FRAME_KANI_BOUNDED[-2]]}],
    'functions': FRAME_FNS,
    'assumptions': [A_USIZE, A_COW, A_INTO, A_REGEX, A_CHUNKS, A_SPEC, A_TOOLS, A_DEBUG,
                    'the data: field of the error values is not constrained by the contract (Vec<u8>: From<&[u8]> has no spec); C03 speaks of the counts and checksum values only'],
    'explanation': 'C03 = contract D on the real from_bytes (result == dec(bytes) incl. precedence Invalid > Mismatch > BadChecksum and the reported counts/values; every unwrap/index/cast proved safe = totality), regexeq (pattern == documented language, groups at the documented offsets) and lemma_reencode.',
}

PROPS['C05'] = {
    'level': 'proof',
    'kani': [{'package': 'flipdot-core', 'harnesses': [
        H('c05_message_frame_message_identity', covers=6),
        H('c05_distinct_messages_distinct_frames', covers=2, tier='thorough'),
    ] + FRAME_KANI_CONTRACTS}],
    'verus': [{'tmpl': 'frame.rs.tmpl', 'obligations': FRAME_VERUS_ENC + ['Frame::from_bytes', 'c01_wire_trip', 'c01_wire_trip_newline', 'lemma_roundtrip', 'lemma_roundtrip_nl',
               'lemma_enc_chars', 'lemma_pairs', 'lemma_nibbles', 'lemma_digit', 'lemma_addr', 'lemma_dec_strip', 'lemma_shape_groups', 'lemma_group_names']},
              # messages reach the wire through Frame::write and come back through Frame::read: their contracts (C15) carry the codec result to the stream level
              {'tmpl': 'frame_io.rs.tmpl', 'obligations': ['Frame::write', 'Frame::read']}],
    'tools': [{'kind': 'regexeq'}, {'kind': 'witness', 'domains': ['message', 'stream'], 'bound': 'stream: as C15; message: all 256 types x 256 first bytes x lengths {0,1,2,3,16,255} x 3 addresses; 5 addresses x every specific kind through the real wire codec'}],
    'functions': MSG_FNS + FRAME_FNS,
    'assumptions': [A_TOOLS, A_DEBUG, A_USIZE, A_COW, A_INTO, A_REGEX, A_CHUNKS, A_SPEC,
                    'composition: message -> frame -> wire -> frame -> message is the composition of the Kani identity Message::from(Frame::from(m)) == m (all specific messages) with the Verus contracts to_bytes == enc, from_bytes == dec and the lemma dec(enc(f)) == Ok(f); the wire leg is additionally executed as one obligation (c01_wire_trip / c01_wire_trip_newline: the real from_bytes applied to the real to_bytes returns Ok with the same address, type and data, for every frame); what is left unmechanised is only that Message::from gives equal messages on frames with equal address, type and data bytes (it reads nothing else: Frame has no other field)',
                    'injectivity ("two different specific messages never share a wire encoding") is a corollary of the two left inverses; additionally checked directly by c05_distinct_messages_distinct_frames in the thorough tier'],
    'explanation': 'Message leg: loop-free Kani harness over every specific message (10 kinds x any u16 x 13 states x 6 operations x data of length 0..=255). Wire leg: the C01 obligations.',
}

PROPS['C02'] = {
    'level': 'proof',
    'verus': [{'tmpl': 'frame.rs.tmpl', 'obligations': FRAME_VERUS_ENC + ['Frame::from_bytes',
               'lemma_c02_substitution', 'lemma_c02_deletion', 'lemma_c02_duplication', 'lemma_c02_transposition', 'lemma_c02_truncation',
               'lemma_accepted_is_consistent', 'lemma_substitution', 'lemma_transposition_core', 'lemma_transposition_same_byte',
               'lemma_transposition_two_bytes', 'lemma_swap_two_bytes_values', 'lemma_swap_shape', 'lemma_swap_two_bytes_bv',
               'lemma_prefix_core', 'lemma_one_byte_changed', 'lemma_lrc_update', 'lemma_lrc_update2', 'lemma_lrc_moves', 'lemma_byte_change',
               'lemma_payload_of_view', 'lemma_roundtrip', 'lemma_enc_chars', 'lemma_enc_format', 'lemma_dec_strip', 'lemma_no_strip',
               'lemma_strip_appended', 'lemma_invalid_len', 'lemma_invalid_char', 'lemma_upper_hex_val_injective',
               'lemma_shape_groups', 'lemma_group_names']},
              # the stream path: Frame::read returns dec(first line), so everything the lemmas say about dec holds for frames read from a port
              {'tmpl': 'frame_io.rs.tmpl', 'obligations': ['Frame::read']}],
    'tools': [{'kind': 'regexeq'}, {'kind': 'witness', 'domains': ['frame-decode', 'stream'], 'bound': 'stream: every single-fault damage (substitution by 8 structural / neighbouring bytes, deletion, duplication, swap, truncation) of 1000 low-entropy frames read through Frame::read from a fragmenting reader; frame-decode: single-fault mutations (substitution by 14 bytes, deletion, duplication, swap, every prefix) at every position of 30 valid frames, with and without CRLF, plus the C03 enumeration'}],
    'kani': [{'package': 'flipdot-core', 'harnesses': FRAME_KANI_CONTRACTS + [FRAME_KANI_BOUNDED[-2]]}],
    'functions': FRAME_FNS,
    'assumptions': [A_USIZE, A_COW, A_INTO, A_REGEX, A_CHUNKS, A_SPEC, A_TOOLS, A_DEBUG, 'for frames arriving through Frame::read the std::io contracts of C15 are assumed (A-std-io, contracts/io_standins.rs)'],
    'explanation': 'C02 = five lemmas over the codec specification (every position x every replacement byte; every deletion; every duplication; every adjacent transposition of unequal characters; every proper prefix — each for enc(f) and enc(f)+CRLF, for every frame with <= 255 data bytes), transferred to the real code by the contracts to_bytes == enc, to_bytes_with_newline == enc+CRLF and from_bytes == dec; second sentence: lemma_accepted_is_consistent + contract D.',
}

VSIGN_FNS = ['flipdot_testing::virtual_sign_bus::VirtualSign::{process_message, query_state, receive_config, send_data, data_chunks_sent, receive_pixels, pixels_complete, show_loaded_page, load_next_page, start_reset, finish_reset, goodbye, flush_pixels, reset} (Kani, per-step from an arbitrary state)',
             'flipdot_testing::virtual_sign_bus::VirtualSignBus::process_message (Kani, against the contract of the sign step)',
             'flipdot_core::page::Page::from_bytes, flipdot_core::sign_type::SignType::from_bytes (executed symbolically inside the step)']
A_VSIGN_BOUND = ('symbolic state bounds of the per-step harnesses: pending buffer of any length 0..=400 with arbitrary contents (the largest real page image is 336 bytes), 0 or 1 stored page (a 2x8 page), any u32 width/height, '
                 'any u16 chunk counter, any recorded type; data chunks of every length 0..=255. The step function only appends to / clears / length-compares the buffer and only pushes to / clears the page list, '
                 'so the bounds are believed immaterial, but that uniformity is argued, not proved')
A_LOG = 'A-log: the log macros are compiled in but no logger is installed (max_level = Off), so their arguments (incl. Display for Page) are not evaluated'

PROPS['C12'] = {
    'level': 'proof',
    'kani': [{'package': 'flipdot-testing', 'harnesses': [
        H('c12_step_never_panics', covers=6),
        H('c12_config_block_arbitrary_fields', covers=3),
        H('c14_bus_isolation_modular_4', covers=4),
    ]}],
    'functions': VSIGN_FNS,
    'assumptions': [A_TOOLS, A_DEBUG, A_VSIGN_BOUND, A_LOG,
                    'inductive argument: c12_step_never_panics assumes NO invariant on the prior state (Inv = true), so it covers every reachable and unreachable state; every message history is a sequence of such steps',
                    'bus level: VirtualSignBus::process_message is verified against the contract of the sign step (modular: a stub that behaves like any sign allowed by c13/c14 sign-level obligations), for 1..4 signs'],
    'explanation': 'C12 = one step from ANY state with ANY message returns normally (all panics, overflow checks, unwraps, index operations are proof obligations of the Kani harness), the configuration block digestion for arbitrary field values, and the bus loop.',
}

PROPS['C13'] = {
    'level': 'proof',
    'kani': [{'package': 'flipdot-testing', 'harnesses': [
        H('c13_step_refines_spec', covers=8),
        H('c13_initial_state_satisfies_inv', covers=1),
        H('c13_spec_type_sizes_agree', covers=1),
    ]}],
    'functions': VSIGN_FNS,
    'assumptions': [A_TOOLS, A_DEBUG, A_VSIGN_BOUND, A_LOG,
                    'spec_step (kani/testing_vsign.rs) is the sign-side protocol state machine written from the protocol description; the harness proves the real step equals it from every state satisfying the inductive invariant inv(), and that inv() is preserved and holds initially',
                    'inv(): counter hygiene (nothing counted outside a transfer, nothing buffered outside a pixel transfer, except in ReadyToReset after an abandoned transfer), Unconfigured => blank, stored pages have the configured size, no pages in the configuration states, a recorded type is recorded together with that type\'s size'],
    'explanation': 'C13 = per-step refinement of the documented state machine + inductive invariant, hence every message history. Buffer contents are checked at an arbitrary index (old buffer followed by the chunk; only the chunk after a flush) and a stored page is exactly the buffered bytes (same allocation) with the configured size.',
}

PROPS['C14'] = {
    'level': 'proof',
    'kani': [{'package': 'flipdot-testing', 'harnesses': [
        H('c14_foreign_and_idle_messages_change_nothing', covers=3),
        H('c14_bus_isolation_modular_4', covers=4),
        H('c13_step_refines_spec', covers=8),
    ]}],
    'functions': VSIGN_FNS,
    'assumptions': [A_TOOLS, A_DEBUG, A_VSIGN_BOUND, A_LOG,
                    'interleavings need no exploration: the sign-level statement is per step from every state satisfying inv(), the bus-level statement is per step for every population of 1..4 signs with pairwise distinct addresses',
                    'modular step: the bus harness replaces VirtualSign::process_message by its contract (no reply and no change for a foreign address; any reply carrying the own address for an own-addressed message; no reply for unaddressed messages); that contract is what c14_foreign_and_idle_messages_change_nothing and c13_step_refines_spec establish'],
    'explanation': 'C14 = sign-level frame condition (foreign-addressed messages and unaddressed data on a non-receiving sign change nothing and get no reply) + bus-level delivery / reply discipline: for any population via the Verus unit of the extracted bus loop (bus_delivers, lemma_c14_bus), and for 1..4 signs via Kani (which alone covers "signs after the first responder are untouched").',
}

PROPS['C19']['kani'].append({'package': 'flipdot-testing', 'harnesses': [H('c19_virtual_sign_derives_dimensions', covers=2), H('c12_config_block_arbitrary_fields', covers=3)]})
PROPS['C19']['functions'].append('flipdot_testing::virtual_sign_bus::VirtualSign::send_data (configuration branch; Kani)')

PROPS['C20'] = {
    'level': 'proof',
    'kani': [{'package': 'flipdot-serial', 'harnesses': [H('c20_configure_port', covers=5), H('c20_serial_sign_bus_try_new', covers=3)]},
             {'package': 'flipdot-testing', 'harnesses': [H('c20_odk_try_new', covers=3)]}],
    'functions': ['flipdot_serial::serial_port::configure_port', 'flipdot_serial::SerialSignBus::try_new', 'flipdot_testing::Odk::try_new',
                  'serial_core::SerialPort::reconfigure (external crate, executed as is by Kani, not assumed)'],
    'assumptions': [A_TOOLS, A_DEBUG,
                    'the mock SerialDevice (KPort) models a port whose three device calls (read_settings, write_settings, set_timeout) may each fail independently; prior settings are fully symbolic (11 standard baud rates + BaudOther(any usize), 4 character sizes, 3 parities, 2 stop-bit settings, 3 flow-control modes)'],
    'explanation': 'Loop-free harnesses over the full product of prior settings and failure placements: complete proofs.',
}

PROPS['C17'] = {
    'level': 'other',
    'kani': [{'package': 'flipdot-testing', 'harnesses': [H('c17_bridge_forwards_exactly', covers=4)]},
             {'package': 'flipdot-testing', 'isolated': ['xpath_serial_bridge.rs'],
              'harnesses': [H('c17_exchange_is_transparent_reply_due', covers=2), H('c17_exchange_is_transparent_one_way', covers=1)]}],
    'functions': ['flipdot_testing::Odk::process_message (Kani; Frame::read / Frame::write replaced by contract stubs, bus = nondeterministic SignBus)',
                  'flipdot_serial::SerialSignBus::process_message composed with flipdot_testing::Odk::process_message over a pipe (Kani: one exchange, both real functions, Frame::write / Frame::read replaced by their contracts = a frame written at one end arrives as an equal frame at the other)'],
    'assumptions': [A_TOOLS, A_DEBUG,
                    'COMPOSITION LEMMA (mechanised, c17_exchange_is_transparent_*): for every message (all kinds, any address / state / operation, data of every length 0..=255, canonical Unknown frames) and every bus that answers Ok(None) or Ok(Some(data-free message)) and answers only messages that require an answer, one exchange through the real SerialSignBus::process_message, the pipe and the real Odk::process_message gives the bus exactly the message sent (data by identity), returns exactly the reply of the bus, turns "no answer to a message that requires one" into an error, and leaves both directions of the pipe empty - so it applies to every exchange of every conversation (induction over the conversation by the pipe-empty invariant; the induction itself is not a mechanised obligation)',
                    'precondition of the lemma, discharged elsewhere for the virtual bus: it returns Ok for every message (C12) and replies only to Hello / QueryState / RequestOperation (C13 spec_step); for an arbitrary SignBus that returns Err, or that answers a one-way message, the serial path is NOT transparent (the error / the extra frame is not transported) - the property only speaks about virtual signs',
                    'NOT MECHANISED: lifting the per-exchange lemma to "controller operation over the wire succeeds exactly when it succeeds directly and leaves the signs in the same state" additionally uses C10 (the controller treats a bus error and a missing answer alike: both end the operation with an error) and the fact that a bus that saw the same messages is in the same state; the native serial-path domain exercises that end to end (bounded)',
                    'Frame::read / Frame::write are contract stubs (their contracts are proved for the extracted functions in C15, relative to the assumed std::io contracts); thread::sleep is a no-op stub (pacing is C18)'],
    'explanation': 'Per-call contract of the ODK bridge for every frame read (any address/type/0..=4 data bytes), every bus answer (none / any reply message / error) and a failure at the read or the write: the bus receives exactly the decoding of the frame read; a frame is written back exactly when the bus replied and it is that reply\'s frame; an undecodable line is a communication error and the bus is not touched; a bus error is a bus error and nothing is written. Plus the one-exchange composition of the real serial bus and the real bridge over a pipe (transparent, pipe empty afterwards).',
}

SERIAL_EVENT = [H('c16_c18_event_order_reply_due', covers=4), H('c16_c18_event_order_one_way', covers=2),
                H('c16_c18_event_order_data', covers=2), H('c16_c18_event_order_unknown', covers=1)]
A_STUBS = ('callee contracts used: Frame::write(port) writes exactly to_bytes_with_newline() of the frame or fails; Frame::read(port) consumes exactly one line and returns its decoding or fails. '
           'These are the contracts PROVED for the extracted Frame::write / Frame::read by the Verus unit of C15 (relative to the assumed std::io contracts A-std-io); their codec is C01/C03. '
           'In the Kani harness they are contract stubs that append to an event log; the correspondence between the stub text and the Verus contract is by inspection')

PROPS['C16'] = {
    'level': 'proof',
    'kani': [{'package': 'flipdot-serial', 'harnesses': SERIAL_EVENT},
             {'package': 'flipdot-serial', 'isolated': ['xpriv_serial_classifiers.rs'], 'harnesses': [H('c16_c18_classifiers', covers=5)]}],
    'functions': ['flipdot_serial::serial_sign_bus::{<SerialSignBus<P> as SignBus>::process_message, response_expected, delay_after_send, delay_after_receive} (Kani)',
                  'flipdot_core::message::{From<Message> for Frame, From<Frame> for Message} (executed symbolically by the same harnesses)'],
    'assumptions': [A_TOOLS, A_DEBUG, A_STUBS,
                    'the four event-order harnesses partition the message domain by kind (reply-due / one-way / data / unknown); each is complete on its part: any address / state / operation, data of every length 0..=255, every reply frame with 0..=4 data bytes of any type (known, unknown, in-progress reports), a failure at the write or at the read'],
    'explanation': 'C16 = response_expected(m) <=> m is Hello/QueryState/RequestOperation (all messages), and the exact event sequence of process_message: exactly one write, first, of Frame::from(message); exactly one read iff a reply is due, and then the reply is Message::from(frame read); write/read failures are returned as errors and nothing follows them.',
}

PROPS['C18'] = {
    'level': 'proof',
    'kani': [{'package': 'flipdot-serial', 'harnesses': SERIAL_EVENT},
             {'package': 'flipdot-serial', 'isolated': ['xpriv_serial_classifiers.rs'], 'harnesses': [H('c16_c18_classifiers', covers=5)]}],
    'functions': PROPS['C16']['functions'],
    'assumptions': [A_TOOLS, A_DEBUG, A_STUBS,
                    'GHOST CLOCK: deductive tools cannot measure time. The clock is advanced only by thread::sleep, which is replaced by a stub that logs its argument; assumed: std::thread::sleep(d) blocks for at least d. Wall-clock scheduling is outside the model',
                    'under that assumption the event order write . sleep(30ms) . [read . ...] gives >= 30 ms between a data-chunk write and any later port operation (the next message is written by a later call), and read . sleep(100ms) . return gives >= 100 ms between an in-progress report and the return to the caller'],
    'explanation': 'C18 = delay_after_send(m) == Some(30 ms) <=> m is SendData; delay_after_receive(r) == Some(100 ms) <=> r is ReportState(_, PageLoadInProgress | PageShowInProgress); and these are the only sleeps, placed directly after the write resp. after the read, for every message and every reply.',
}

SIGN_FNS = ['flipdot::sign::Sign::{send_message, send_message_expect_response} (Kani, real Rc<RefCell<dyn SignBus>> plumbing, one exchange, every message x every reply)',
            'flipdot::sign::Sign::{ensure_unconfigured, send_data, configure, configure_if_needed, send_pages, shut_down, switch_page, show_loaded_page, load_next_page} and verify_response '
            '(Kani; callees replaced by their verified contracts: #[kani::stub])']
A_MODULAR = ('modular verification: send_message / send_message_expect_response are proved against their contracts on the real plumbing (c10_unit_*); every longer operation is verified with these two '
             'replaced by contract stubs, and configure / configure_if_needed / send_pages additionally with ensure_unconfigured / send_data / configure replaced by contract stubs (caller checked against callee contract, not body)')
A_ATTEMPTS = ('send_data is verified per class of reply script A = 1, 2, 3 (A = first transfer attempt that is not a "clean failed attempt"); the three classes partition all scripts, so together the harnesses are complete over reply scripts')
A_SHAPES = ('page-list shapes are a bound: quick = {configuration item (16 bytes), no pages, one 48-byte page}; thorough adds {two pages of 16 and 32 bytes} and the monolithic (unstubbed) conversations. '
            'Contents are symbolic; offsets near the 16-bit limit (pages of 64 KiB) are not reached')
A_REPLIES = 'reply alphabet per exchange: no answer, any of the 13 states from any 16-bit address, any of the 6 acknowledgements from any address, an unrelated message (Goodbye from any address), an unknown frame (any address/type), a bus error'
SIGN_UNITS_QUICK = [
    H('c10_unit_send_message', covers=2), H('c10_unit_send_message_expect_response', covers=3),
    H('c10_ensure_unconfigured_all_reply_scripts', covers=5),
    H('c09_send_data_config_attempt1', covers=3), H('c09_send_data_config_attempt2', covers=3), H('c09_send_data_config_attempt3', covers=3),
    H('c09_send_data_no_pages_attempt1', covers=2),
    H('c09_send_data_page48_attempt1', covers=2), H('c09_send_data_page48_attempt2', covers=2), H('c09_send_data_page48_attempt3', covers=2),
    H('c10_configure_composition', covers=2), H('c10_configure_if_needed_composition', covers=3), H('c10_send_pages_composition', covers=3),
    H('c10_shut_down_all_reply_scripts', covers=3),
]
SIGN_SWITCH = [H('c10_show_loaded_page_bounded', covers=2, bounded='at most 5 exchanges before the sign must leave the in-progress/trigger states'),
               H('c10_load_next_page_bounded', covers=2, bounded='at most 5 exchanges before the sign must leave the in-progress/trigger states')]
SIGN_THOROUGH = [
    H('c09_send_data_no_pages_attempt2', covers=2, tier='thorough'), H('c09_send_data_no_pages_attempt3', covers=2, tier='thorough'),
    H('c09_send_data_pages_16_32_attempt1', covers=2, tier='thorough'), H('c09_send_data_pages_16_32_attempt2', covers=2, tier='thorough'),
    H('c09_send_data_pages_16_32_attempt3', covers=2, tier='thorough'),
    H('c10_configure_all_reply_scripts', covers=3, tier='thorough'), H('c10_configure_if_needed_all_reply_scripts', covers=3, tier='thorough'),
    H('c09_send_pages_empty_list', covers=3, tier='thorough'), H('c09_send_pages_one_page_16', covers=3, tier='thorough'),
]

for _pid, _expl in [
    ('C09', 'C09 = the data-phase expectations of the protocol monitor inside the send_data units: the receive request is acknowledged before any data; per item the chunks are SendData(Offset(0), ..), (16), (32).. restarting at each item, chunk i is bytes [16i, min(16i+16, len)) of the item (pointer identity for pages, byte equality for the configuration block == sign_type.to_bytes()), the announced count equals the chunks sent since the request, then the state query; in every retry attempt. The callers pass exactly the page byte images in order (c10_send_pages_composition) / the 16-byte block (c10_configure_composition).'),
    ('C10', 'C10 = every outgoing message equals what the documented protocol (a phase machine written independently of sign.rs) prescribes for the replies seen so far, and the final outcome (Ok / UnexpectedResponse / Bus error, flip style) is the prescribed one, for every reply script of every operation.'),
    ('C11', 'C11 = log invariants checked without reference to the protocol monitor: every addressed message carries the own address; after a bus error or a reply the protocol never allows (a reply to a one-way message, anything but the matching acknowledgement from the own address to an operation request) nothing further is sent and the matching error is returned; at most three receive requests per call and each retry directly follows a failed report from the own address; success only if the last state query was answered by the received state from the own address.'),
]:
    PROPS[_pid] = {
        'level': 'proof',
        'kani': [{'package': 'flipdot', 'harnesses': SIGN_UNITS_QUICK + SIGN_SWITCH + SIGN_THOROUGH, 'timeout': 5400}],
        'functions': SIGN_FNS,
        'assumptions': [A_TOOLS, A_DEBUG, A_MODULAR, A_ATTEMPTS, A_SHAPES, A_REPLIES,
                        'alloc::fmt::format is stubbed (error strings are not part of any property); the polling loop of show_loaded_page / load_next_page is unbounded in the code and is covered by a bounded stand-in only'],
        'explanation': _expl,
    }

# ---- Verus unit for the virtual sign (added late, DESIGN §9.11): the extracted step functions against the documented
# machine over the FULL state (buffer contents and page lists of any length) - lifts the buffer-size bound of the Kani step proofs.
VSIGN_VERUS_FNS = 'flipdot_testing::virtual_sign_bus::VirtualSign::{new, process_message, query_state, receive_config, send_data, data_chunks_sent, receive_pixels, pixels_complete, show_loaded_page, load_next_page, start_reset, finish_reset, goodbye, flush_pixels, reset} (Verus, extracted; rewrites listed per function in verus_units: logging macro calls replaced by (), match guards turned into if/else with a checked no-overlap condition, iter().map().sum() and the Option::filter closure given contracts); Page::from_bytes, SignType::from_bytes, SignType::dimensions, Data::get verified in the same file'
A_VSIGN_VERUS = ('Verus unit vsign.rs.tmpl: assumed std contracts core::mem::take (returns the old value, leaves Default::default(); for Vec<u8> the empty vector), Option::filter (keeps the value iff the predicate returns true), '
                 '<[u8]>::iter().map(u32::from).sum() == the sum of the bytes (stand-in sum_u8_as_u32), plus those of std_prelude.rs; the derive(PartialEq, Eq) of Address / Offset / ChunkCount / State / Operation / SignType / PageFlipStyle is taken to be structural equality (the extractor checks that the real types derive them); '
                 'the documented machine `step` is a third transcription of the protocol description (A-transcription); the log macros are replaced by () (their arguments are not evaluated: A-log)')
_VS_UNIT = {'tmpl': 'vsign.rs.tmpl', 'obligations': ['VirtualSign::process_message', 'VirtualSign::new', 'VirtualSign::query_state', 'VirtualSign::receive_config', 'VirtualSign::send_data', 'VirtualSign::data_chunks_sent', 'VirtualSign::receive_pixels', 'VirtualSign::pixels_complete', 'VirtualSign::show_loaded_page', 'VirtualSign::load_next_page', 'VirtualSign::start_reset', 'VirtualSign::finish_reset', 'VirtualSign::goodbye', 'VirtualSign::flush_pixels', 'VirtualSign::reset', 'Page::from_bytes', 'SignType::from_bytes', 'SignType::dimensions', 'Data::get', 'lemma_sum4']}
PROPS['C12']['verus'] = [dict(_VS_UNIT)]
PROPS['C12']['functions'] = [VSIGN_VERUS_FNS] + PROPS['C12']['functions']
PROPS['C12']['assumptions'] = PROPS['C12']['assumptions'] + [A_VSIGN_VERUS, A_USIZE, A_COW, A_INTO,
    'UNBOUNDED part (Verus): every step function, from ANY state with well-formed stored Page objects (rep(), established by new() and preserved by every step), with a pending buffer and a page list of ANY length and a data chunk of any length, returns normally - every arithmetic operation, index, slice and unwrap is a discharged obligation. The Kani step harness (buffer <= 400 bytes, <= 1 stored page) is kept: it executes the unmodified code, including the parts the extraction rewrites']
PROPS['C13']['verus'] = [{'tmpl': 'vsign.rs.tmpl', 'obligations': _VS_UNIT['obligations'] + ['lemma_step_pages_complete', 'VirtualSign::lemma_rep_pages_complete']}]
PROPS['C13']['functions'] = [VSIGN_VERUS_FNS] + PROPS['C13']['functions']
PROPS['C13']['assumptions'] = PROPS['C13']['assumptions'] + [A_VSIGN_VERUS, A_USIZE, A_COW, A_INTO,
    'UNBOUNDED part (Verus): (state after, reply) == step(state before, message) for the real process_message and each of its helpers, over the full abstract state (buffer CONTENTS, stored page images, any lengths); new() yields the blank state; step preserves "every stored image is a complete page of its size" (lemma_step_pages_complete) and the real representation invariant implies it (lemma_rep_pages_complete). Induction over the history is the usual argument (initial state + step), not a mechanised obligation']
PROPS['C14']['verus'] = [{'tmpl': 'vsign.rs.tmpl', 'obligations': ['VirtualSign::process_message', 'lemma_c14_foreign_and_idle', 'VirtualSign::send_data', 'VirtualSign::data_chunks_sent', 'VirtualSignBus::process_message', 'lemma_c14_bus']}]
PROPS['C14']['functions'] = [VSIGN_VERUS_FNS, '<flipdot_testing::virtual_sign_bus::VirtualSignBus as SignBus>::process_message (Verus, extracted; for-loop over &mut Vec rewritten to iter_mut(), error type stand-in, debug! dropped)'] + PROPS['C14']['functions']
PROPS['C14']['assumptions'] = PROPS['C14']['assumptions'] + [A_VSIGN_VERUS,
    'sign level, UNBOUNDED (Verus): process_message == step, and lemma_c14_foreign_and_idle: a message addressed elsewhere, a report / acknowledgement / unknown frame, or an unaddressed data message arriving at a sign that is not receiving leaves the full state unchanged and gets no reply; a reply carries the sign\'s own address',
    'bus level, UNBOUNDED in the population (Verus, added): the real <VirtualSignBus as SignBus>::process_message is extracted (its `for sign in &mut self.signs` loop under a loop invariant over the slice::IterMut prophecies) against bus_delivers: every sign up to and including the first responder has processed the message exactly as it would alone (step), none before it replied, the reply is that sign\'s reply, the bus never fails; nobody replies = every sign processed it and every sign is well formed again. lemma_c14_bus derives from that + the sign-level lemma, for ANY number of signs with distinct addresses: absent address / report / ack / unknown => no reply and nothing changes; unaddressed data => no reply, only receiving signs change; addressed to sign j => (state of j, reply) == step(j alone), no sign before j changes, and when j does not reply no other sign changes. NOT covered by the Verus unit (vstd has no specification for dropping a partly consumed IterMut): the signs AFTER the first responder are left untouched, and rep() on the reply path - that clause stays a Kani obligation over 1..4 signs',
    'extraction rewrites for the bus function: `for sign in &mut self.signs` -> `for sign in it: self.signs.iter_mut()` (std: IntoIterator for &mut Vec<T> is iter_mut(); vstd specifies iter_mut but not that into_iter), the error type Box<dyn Error + Send + Sync> (never constructed by this function) replaced by a unit stand-in, debug! calls replaced by ()']

A_STDIO = ('A-std-io: ASSUMED contracts of the std::io items Frame::read / Frame::write call (contracts/io_standins.rs): Write::write_all(buf) appends exactly buf to what the sink '
           'received or fails having delivered a proper prefix (short writes and Interrupted are retried inside it); BufReader::with_capacity(1, r).read_until(LF, v) consumes from r '
           'exactly the first line and appends it to v, however r fragments its reads and however often it reports Interrupted, and with any other capacity may consume more; '
           'thiserror\'s #[from] wraps an io::Error in FrameError::Io; core\'s reflexive From is the identity. These are stated over stand-in traits/types with the std names, '
           'plus the frame conditions beside_sink() / beside_source(): a write touches nothing but the sink, a read nothing but the source (used by the serial unit for a two-way port); not proved; the bounded Kani harnesses c15_* and the native `stream` domain run the REAL std code against them')
PROPS['C15'] = {
    'level': 'proof',
    'verus': [{'tmpl': 'frame_io.rs.tmpl', 'obligations': ['Frame::write', 'Frame::read', 'Frame::to_bytes_with_newline', 'Frame::to_bytes', 'Frame::payload',
               'Frame::from_bytes', 'Data::try_new', 'Frame::new', 'lemma_shape_groups', 'lemma_group_names', 'lemma_hex_num2', 'lemma_hex_num4',
               'lemma_line_len_prefix', 'lemma_c15_back_to_back', 'c15_read_two', 'lemma_enc_chars', 'lemma_roundtrip', 'lemma_roundtrip_nl', 'lemma_pairs']}],
    'kani': [{'package': 'flipdot-core', 'harnesses': [
        H('c15_read_one_line_tape2_interrupts', covers=1, bounded='stream of 0..=2 bytes, up to 2 Interrupted results, a hard error at any of the first 6 read calls'),
        H('c15_write_delivers_whole_frame_accept7', covers=2, bounded='15-byte encoding (1 data byte), sink accepting 7 bytes per call, one Interrupted result, a hard error at any of the first 5 write calls'),
        H('c15_read_one_line_tape4_hard_errors', covers=3, tier='thorough', bounded='stream of 0..=4 bytes, a hard error at any of the first 6 read calls, no Interrupted results'),
        H('c15_write_delivers_whole_frame_accept4', covers=2, tier='thorough', bounded='15-byte encoding, sink accepting 4 bytes per call, one Interrupted result, a hard error at any of the first 5 write calls'),
    ], 'timeout': 5400}],
    'functions': ['flipdot_core::frame::Frame::write, Frame::read (Verus, extracted; statement-final `?` desugared to the explicit match + From::from, listed per function in verus_units)',
                  'flipdot_core::frame::{Frame::to_bytes_with_newline, Frame::to_bytes, Frame::payload, Frame::from_bytes, Data::try_new, Frame::new} (Verus, the callee contracts the two I/O functions are checked against; same text as C01/C03)',
                  'BOUNDED: Frame::read on the real std BufReader::with_capacity(1)/read_until and Frame::write on the real std write_all, executed by Kani on adversarial Read / Write implementations'],
    'assumptions': [A_STDIO, A_USIZE, A_COW, A_INTO, A_REGEX, A_CHUNKS, A_CAP, A_TOOLS, A_DEBUG,
                    'what the proof establishes is the part of C15 that is flipdot\'s: Frame::read wraps the caller\'s reader itself in a BufReader of capacity exactly 1, starts from an empty buffer, makes one read_until(LF) call, '
                    'hands exactly those bytes to Frame::from_bytes and returns its verdict, maps an io::Error to FrameError::Io; Frame::write makes one write_all call with exactly to_bytes_with_newline(). '
                    'That the stream may fragment and interrupt is absorbed by the assumed std contracts (A-std-io)',
                    'the Kani runs are the BOUNDED check of A-std-io against the real std code (very short streams); the mechanism is length-uniform (every request to the reader is for exactly 1 byte; none after the line feed), which is argued, not proved',
                    'back-to-back frames: lemma_c15_back_to_back (the first line of enc(f)+CRLF+t is enc(f)+CRLF, what remains is t, and it decodes to f) and the executed composition c15_read_two (two reads return the two frames in order and leave exactly the trailing bytes) are proved; n frames follow by repeating the lemma (induction over the list is not mechanised)'],
    'explanation': ('Verus: Frame::read consumes exactly first_line(rest) (up to and including the first LF, or everything at end of stream) and returns dec(first_line) - Ok(frame), InvalidFrame, FrameDataMismatch with the counts, '
                    'BadChecksum with the values - or FrameError::Io having consumed at most that line; Frame::write appends exactly enc(frame) + CRLF to the sink or returns FrameError::Io having delivered a proper prefix. '
                    'Both relative to the assumed std::io contracts. Kani (bounded): the real std code on adversarial readers/writers - one byte per request, never a request after the line feed, Interrupted retried, hard errors surfaced, short writes completed.'),
}

C08_SEND = ['c08_send_pages_max3000_front_112x16', 'c08_send_pages_max3000_front_98x16', 'c08_send_pages_max3000_side_90x7', 'c08_send_pages_max3000_rear_30x10',
            'c08_send_pages_max3000_rear_23x10', 'c08_send_pages_max3000_dash_30x7', 'c08_send_pages_horizon_front_160x16', 'c08_send_pages_horizon_front_140x16',
            'c08_send_pages_horizon_side_96x8', 'c08_send_pages_horizon_rear_48x16', 'c08_send_pages_horizon_dash_40x12']
PROPS['C08'] = {
    'level': 'other',
    'kani': [{'package': 'flipdot', 'harnesses': [H('c08_configure_against_sign_machine', covers=3), H('c08_configure_if_needed_against_sign_machine', covers=2),
                                                   H('c08_show_and_load_next_against_sign_machine', covers=2),
                                                   H('c08_transfer_base_case', covers=2), H('c08_transfer_step_is_inductive', covers=3), H('c08_transfer_final_case', covers=2)] + [H(n, covers=2, tier=('quick' if 'dash_30x7' in n else 'thorough')) for n in C08_SEND if '160x16' not in n], 'timeout': 7200}],
    'tools': [{'kind': 'witness', 'domains': ['e2e'], 'bound': '110000 random walks: 5 addresses x 11 sign types x both flip styles, prior state reached by 0..39 random protocol messages (incl. abandoned transfers, foreign addresses, '
               'configuration as another / unknown type), page lists of length 0..2 (every third walk: all pages carry the same id), then configure (or configure_if_needed where the property quantifies it) + send_pages + show + load-next + repeated send on the REAL Sign x REAL VirtualSignBus'}],
    'functions': ['composition of the contracts of flipdot::sign::Sign (C10/C09/C11: the real controller sends exactly what the protocol monitor prescribes) and flipdot_testing::VirtualSign (C13: the real sign step equals spec_step)'],
    'assumptions': [A_TOOLS, A_DEBUG,
                    'C08 is not a contract of one function. What is machine-checked here is the COMPOSITION LEMMA over the two contract vocabularies: the protocol monitor of C10, run as a generator of the prescribed messages, against spec_step of C13, from every abstract sign state satisfying the C13 invariant (all 13 states, any counter / buffer length / recorded type / page count), for all 11 sign types, both flip styles and 0..=2 pages of the sign\'s size. It is complete at that level of abstraction',
                    'the lemma speaks about page COUNTS and LENGTHS; that the bytes arrive identical and in order is the conjunction of C09 (each chunk is the page\'s own bytes at the right offset: pointer identity) and C13 (the buffer is the chunks in arrival order; a stored page is the buffer)',
                    'the link from the lemma to the real code is the obligations of C09/C10/C11 (controller) and C13 (virtual sign), decided by their own checks; it is not re-established here. The only real-code part of THIS check is the bounded native exploration (never counted as proved)',
                    'configure_if_needed is quantified as the property states: over prior states that are not ready-to-receive or that record the same sign type'],
    'explanation': 'Composition lemma (Kani, spec level, complete over abstract prior states) + bounded native end-to-end exploration of the real controller against the real virtual bus.',
}

# bounded native runs of the I/O-facing real code (never counted as proved)
PROPS['C15']['tools'] = [{'kind': 'witness', 'domains': ['stream'], 'bound': '1000 low-entropy frames x every single-fault damage read through Frame::read (classification == reference decoding of the line, exactly the line consumed); 4000 rounds: 1..3 random frames back to back + 0..5 trailing bytes, random fragmentation (1..7 bytes per read), up to 3 Interrupted reads, a hard error at a random call in every third round; writes into a sink accepting 1..9 bytes per call with an Interrupted result and (every fourth round) a hard error'}]
PROPS['C16']['tools'] = [{'kind': 'witness', 'domains': ['serial'], 'bound': '2 conversations of 10 exchanges on ONE bus object with decodable / undecodable replies interleaved (no state kept between messages); 2 rounds x 14 message kinds x 5 reply frames: bytes written, reply returned, bytes consumed; 6 io::ErrorKinds injected at the write and at the read; 6 undecodable replies; elapsed time >= 30 ms / >= 100 ms on paced exchanges'}]
PROPS['C18']['tools'] = PROPS['C16']['tools']
PROPS['C17']['tools'] = [{'kind': 'witness', 'domains': ['bridge', 'serial-path'], 'bound': 'bridge: 40 conversations of 22 protocol messages (incl. frames of 255 and 128 data bytes and data chunks of 0 and 1 bytes) interleaved with undecodable (incl. blank) / unknown lines, all queued on the port in advance (each call must consume exactly one line), bridge vs direct bus after every line; serial path: configure, send_pages, show, load-next, shut-down, reconfigure over controller -> serial bus -> byte stream -> bridge -> virtual bus vs the same operations directly on a virtual bus, 2 sign types x 2 flip styles'}]

PROPS['C19']['verus'] = [{'tmpl': 'sign_type.rs.tmpl', 'obligations': ['SignType::from_bytes', 'SignType::dimensions']},
                         # what a virtual sign derives from a block: width / height / type exactly as cfg_of says (send_data == step_data)
                         {'tmpl': 'vsign.rs.tmpl', 'obligations': ['VirtualSign::send_data', 'lemma_sum4']}]
PROPS['C19']['functions'].append('flipdot_core::sign_type::SignType::from_bytes (Verus, extracted verbatim: every byte string of EVERY length)')
PROPS['C19']['assumptions'] += [A_USIZE, 'the Vec<u8> stored in UnknownConfig { bytes } is not constrained by the contract (Vec<u8>: From<&[u8]> has no specification); the property does not speak about it']
PROPS['C19']['explanation'] = 'All 11 variants by Kani (block length 16, round trip, fields agree with dimensions(), (family,id) unique, virtual-sign derivation from any prior dimensions); decoding of byte strings of EVERY length by Verus on the extracted from_bytes (rejects every length other than 16 with the exact counts; accepts exactly the supported (family, id) pairs whatever the other 14 bytes are), cross-checked by Kani for lengths 0..=64.'

_CTRL_TOOL = [{'kind': 'witness', 'domains': ['controller'], 'bound': '60000 random reply scripts (quick; x10 thorough) against the REAL Sign through its public API only, judged by the same protocol monitor as the Kani proofs '
               '(kani/sign_monitor.rs, included textually): configure, configure_if_needed, shut_down, show, load-next, send_pages with 0..3 pages of 16 / 48 / 96 / 336 bytes and, every 97th script, of 4096 / 65520 / 65536 bytes (the 16-bit offset limit); '
               'replies biased (75..100 %) towards the ones that let the conversation continue; own/foreign addresses 1:1; every second script is followed by a SECOND operation on the same Sign object judged by a fresh monitor (no protocol state may survive between operations); every third page list repeats one page id; bus errors rotate through io::Error(TimedOut), io::Error(Other), FrameError::Io(TimedOut), a string error and an opaque error type'}]
_SIGN_STATELESS = {'kind': 'premise', 'name': 'sign-has-no-state', 'file': 'src/sign.rs', 'struct': 'Sign',
                   'fields': ['address: Address', 'sign_type: SignType', 'bus: Rc<RefCell<dyn SignBus>>'],
                   'forbid': [r'\bCell\s*<', r'\bRefCell\s*<(?!\s*dyn SignBus\s*>)', r'\bstatic\s+(mut\s+)?[A-Z_]+\s*:', r'thread_local!', r'\bAtomic[A-Z]\w*', r'\bMutex\b', r'\bRwLock\b',
                              r'\bOnce(Cell|Lock)\b', r'lazy_static!', r'\bunsafe\b', r'&mut\s+self'],
                   'text': 'a Sign has exactly the fields {address, sign_type, bus}, every method takes &self, and sign.rs has no interior mutability / statics / unsafe besides the shared bus handle: '
                           'operations cannot communicate through the controller object, which is what lets every operation be verified from a fresh object'}
for _pid in ('C09', 'C10', 'C11'):
    PROPS[_pid]['tools'] = [_SIGN_STATELESS] + _CTRL_TOOL
    PROPS[_pid]['assumptions'] = PROPS[_pid]['assumptions'] + ['the native oracle run (witness search controller) is a bounded complement: it is independent of private signatures of sign.rs and reaches page sizes up to the 16-bit offset limit, which the Kani shapes do not; it is listed under bounded_standins']

# ---- syntactic premises of the per-call proofs: the objects / modules keep no hidden state between calls -------------
_NO_STATE = [r'\bCell\s*<', r'\bRefCell\s*<', r'\bstatic\s+mut\b', r'thread_local!', r'\bAtomic[A-Z]\w*', r'\bMutex\b', r'\bRwLock\b', r'\bOnce(Cell|Lock)\b', r'\bunsafe\b']
def _premise(name, file, text, struct=None, fields=None, exactly=None, forbid=None):
    d = {'kind': 'premise', 'name': name, 'file': file, 'text': text, 'forbid': (forbid or []) + list(_NO_STATE)}
    if struct:
        d['struct'], d['fields'] = struct, fields
    if exactly:
        d['exactly'] = exactly
    return d
_P_FRAME = _premise('frame-codec-has-no-state', 'libs/core/src/frame.rs', 'frame.rs keeps no state between calls: no interior mutability, mutable statics, thread-locals or unsafe; its only lazy static is the compiled regex (immutable). '
                    'So the per-call contracts (to_bytes == enc, from_bytes == dec, checksum, parse_hex) describe every call of every sequence', exactly=[(r'lazy_static!', 1), (r'\bstatic\s+ref\b', 1)])
_P_MESSAGE = _premise('message-mapping-has-no-state', 'libs/core/src/message.rs', 'message.rs keeps no state between calls (no interior mutability, statics, thread-locals, unsafe)', exactly=[(r'lazy_static!', 0), (r'\bstatic\s+\w+\s*:', 0)])
_P_PAGE = _premise('page-module-has-no-state', 'libs/core/src/page.rs', 'page.rs keeps no state outside the Page value itself (no interior mutability, statics, thread-locals, unsafe)', exactly=[(r'lazy_static!', 0), (r'\bstatic\s+\w+\s*:', 0)])
_P_SIGNTYPE = _premise('sign-type-module-has-no-state', 'libs/core/src/sign_type.rs', 'sign_type.rs keeps no state between calls', exactly=[(r'lazy_static!', 0), (r'\bstatic\s+\w+\s*:', 0)])
_P_SERIAL = _premise('serial-bus-has-no-state', 'libs/serial/src/serial_sign_bus.rs', 'a SerialSignBus is exactly its port: nothing is carried from one exchange to the next, which is what lets one exchange from a fresh bus stand for every exchange of a conversation',
                     struct='SerialSignBus', fields=['port: P'], exactly=[(r'lazy_static!', 0), (r'\bstatic\s+\w+\s*:', 0)])
_P_ODK = _premise('bridge-has-no-state', 'libs/testing/src/odk.rs', 'an Odk is exactly its port and its bus: nothing is carried from one line to the next',
                  struct='Odk', fields=['port: P', 'bus: B'], exactly=[(r'lazy_static!', 0), (r'\bstatic\s+\w+\s*:', 0)])
for _pid, _ps in (('C01', [_P_FRAME]), ('C02', [_P_FRAME]), ('C03', [_P_FRAME]), ('C04', [_P_MESSAGE, _P_FRAME]), ('C05', [_P_MESSAGE, _P_FRAME]),
                  ('C06', [_P_PAGE]), ('C07', [_P_PAGE]), ('C15', [_P_FRAME]), ('C16', [_P_SERIAL]), ('C18', [_P_SERIAL]), ('C17', [_P_ODK, _P_SERIAL]), ('C19', [_P_SIGNTYPE])):
    PROPS[_pid]['tools'] = _ps + PROPS[_pid].get('tools', [])

# ---- Verus unit for the serial bus (added in the last session, DESIGN §9.13): the real process_message composed with the
# VERIFIED Frame::write / Frame::read of the same file (not with assumed contract stubs), frames and lines of any length
A_SERIAL_VERUS = ('Verus unit serial.rs.tmpl (= frame.rs.tmpl + io stand-ins + contracts/serial_unit.rs): Frame <-> Message conversion is an UNINTERPRETED function here (its table is the Kani proof of C04/C05); '
                  'serial_core::SerialPort is a stand-in trait Read + Write whose two directions are independent (ASSUMED: writing does not alter what will be read, reading does not alter what was written - trait law two_way()); '
                  'Box<dyn Error + Send + Sync> -> enum BusError { Frame(FrameError) }; core::time::Duration -> a stand-in struct with from_millis; std::thread::sleep -> a stand-in without a clock (pacing is NOT expressed here); debug! -> (); `?` desugared as the language defines it')
SERIAL_VERUS_FNS = ('<flipdot_serial::SerialSignBus<P> as SignBus>::process_message, response_expected, delay_after_send, delay_after_receive (Verus, extracted; rewrites: error type / Duration / thread::sleep stand-ins, debug! dropped, `?` desugared), '
                    'together with Frame::write, Frame::read, Frame::to_bytes_with_newline, Frame::from_bytes verified in the same file')
PROPS['C16']['verus'] = [{'tmpl': 'serial.rs.tmpl', 'obligations': ['SerialSignBus::process_message', 'response_expected', 'Frame::write', 'Frame::read']}]
PROPS['C16']['functions'] = [SERIAL_VERUS_FNS] + PROPS['C16']['functions']
PROPS['C16']['assumptions'] = PROPS['C16']['assumptions'] + [A_SERIAL_VERUS, A_STDIO, A_USIZE,
    'UNBOUNDED part (Verus): for every message and every port content, process_message returns Ok(None) only for a message that is not a hello / state query / operation request, having written exactly enc(frame)+CRLF and read nothing; Ok(Some(reply)) only when a reply is due, having written exactly that, consumed exactly the first line, with reply == Message::from(a frame equal to dec(that line)); Err(..) having written that encoding or a proper prefix of it, having read nothing unless the write completed and a reply was due, and then at most one line. response_expected == the documented table. Frame::write / Frame::read are VERIFIED callees in this unit (relative to A-std-io), not stubs']
PROPS['C18']['verus'] = [{'tmpl': 'serial.rs.tmpl', 'obligations': ['delay_after_send', 'delay_after_receive']}]
PROPS['C18']['assumptions'] = PROPS['C18']['assumptions'] + [A_SERIAL_VERUS,
    'Verus (unbounded): delay_after_send(m) == Some(30 ms) iff m is SendData, delay_after_receive(r) == Some(100 ms) iff r is ReportState(_, PageLoadInProgress | PageShowInProgress), extracted on every run (robust to the private-signature fragility of the Kani classifier harness); WHERE the sleeps are placed stays with the Kani event-order harnesses']

# ---- C17: the bridge's per-call contract as a Verus postcondition on the extracted Odk::process_message (same unit)
PROPS['C17']['verus'] = [{'tmpl': 'serial.rs.tmpl', 'obligations': ['Odk::process_message', 'SerialSignBus::process_message', 'Frame::write', 'Frame::read']}]
PROPS['C17']['functions'] = ['flipdot_testing::odk::Odk::process_message (Verus, extracted verbatim; OdkError extracted with its two source types replaced by stand-ins; SignBus is a stand-in trait with a ghost log)', SERIAL_VERUS_FNS] + PROPS['C17']['functions']
PROPS['C17']['assumptions'] = PROPS['C17']['assumptions'] + [A_SERIAL_VERUS, A_STDIO, A_USIZE,
    'UNBOUNDED part (Verus, per call of the bridge, frames / lines of any length): Ok => exactly one line was taken off the port, it decoded, the bus was given exactly Message::from(that frame), once, and exactly the answer of the bus (if any) was written back as one frame + CRLF; a line that does not decode is never forwarded and never answered (Err); any Err => the bus was asked at most once and nothing is written unless it was asked. The stand-in SignBus trait logs what it was given and what it answered (ghost); thiserror #[from] conversions are written out. Together with the contract of SerialSignBus::process_message in the same file these are the two halves of one exchange; their composition over a pipe (what one side writes is what the other reads) and the induction over a conversation are NOT done in Verus - the Kani per-exchange lemma (contract-level pipe) and the native serial-path run remain the composition evidence']

# ---- C08: the transfer half of the composition as a Verus lemma over CONTENTS, pages of any size up to the 16-bit offset limit, lists of any length
PROPS['C08']['verus'] = [{'tmpl': 'vsign.rs.tmpl', 'obligations': ['lemma_item_transfer', 'lemma_pages_transfer', 'lemma_step_settled', 'lemma_c08_pages_arrive_bit_exact', 'c08_lemma_is_not_vacuous',
                                                              'VirtualSign::process_message', 'VirtualSign::send_data', 'VirtualSign::data_chunks_sent', 'VirtualSign::flush_pixels', 'VirtualSign::receive_pixels', 'VirtualSign::pixels_complete']}]
PROPS['C08']['functions'] = PROPS['C08']['functions'] + [VSIGN_VERUS_FNS]
PROPS['C08']['assumptions'] = PROPS['C08']['assumptions'] + [A_VSIGN_VERUS,
    'UNBOUNDED part (Verus, contracts/c08_transfer.rs): lemma_c08_pages_arrive_bit_exact - from ANY settled state in which the sign accepts pixels (settled = nothing buffered or counted outside a transfer; lemma_step_settled: every step preserves it, the blank state has it), feeding the machine `step` the message sequence C09 prescribes (ReceivePixels request; every page as consecutive chunks of <= 16 bytes at offsets 0, 16, 32, ... restarting per page; the chunk count; PixelsComplete) makes it hold EXACTLY the byte images of the pages sent, in order (contents, not just counts), in state PageLoaded / ShowingPages - for page lists of any length >= 1 and pages of any size up to 65536 bytes that match the configured dimensions, total chunks < 65536. `step` is what the real VirtualSign::process_message is proved equal to in the same file; that the real controller emits that sequence is C09/C10 (Kani, bounded page shapes) - so the bit-exactness statement is unbounded on the sign side and on the composition, and bounded only where C09 is. c08_lemma_is_not_vacuous instantiates it (90x7 sign, two 96-byte pages)']

# ---- C14: native bus domain (added after round 6: a bus that keeps state between messages, C14-m9, is invisible to per-step proofs from a fresh bus)
PROPS['C14']['tools'] = [{'kind': 'premise', 'name': 'virtual-bus-has-no-state', 'file': 'libs/testing/src/virtual_sign_bus.rs', 'struct': 'VirtualSignBus',
                          'fields': ["signs: Vec<VirtualSign<'a>>"],
                          'forbid': [r'\bCell\s*<', r'\bRefCell\s*<', r'\bstatic\s+(mut\s+)?[A-Z_]+\s*:', r'thread_local!', r'\bAtomic[A-Z]\w*', r'\bMutex\b', r'\bRwLock\b', r'\bOnce(Cell|Lock)\b', r'lazy_static!', r'\bunsafe\b'],
                          'text': 'a VirtualSignBus is exactly its list of signs: nothing but the signs themselves is carried from one message to the next, which is what lets the bus-level statements be proved per message from an arbitrary list of sign states'},
                         {'kind': 'witness', 'domains': ['bus'], 'bound': '3000 random conversations (x10 thorough) of 40 messages on a bus of 1..4 signs with distinct addresses drawn from {0, 1, 3, 6, 16, 32, 0x7F, 0xFFFF} (addresses that coincide with chunk offsets / counts included) and mixed flip styles: interleaved configuration / pixel transfers to several signs at once, messages for absent addresses; after every message every sign of the bus must equal the same sign driven alone with the same messages, and the reply must be that of the one sign that answers'}]
