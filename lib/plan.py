"""Per-property plan: which obligations decide which property."""


def H(name, kind='verify', tier='quick', bounded=None, covers=1, allowed=None):
    d = {'name': name, 'kind': kind, 'tier': tier, 'covers': covers}
    if bounded:
        d['bounded'] = bounded
    if allowed:
        d['allowed'] = allowed
    return d


A_USIZE = 'A-usize64: usize is 64 bits (`global size_of usize == 8`); 32-bit targets are out of scope'
A_COW = 'A-cow: Cow<[u8]> deref / to_mut view the same bytes (std contract, assumed via assume_specification + axioms in contracts/std_prelude.rs)'
A_FILL = 'A-fill: <[T]>::fill sets every element of the slice; Vec range IndexMut has the slice IndexMut contract of vstd'
A_INTO = 'A-into: Into<Cow<[u8]>> conversions of Vec<u8> / &[u8] are functions of their argument and preserve the bytes'
A_TOOLS = 'A-tools: soundness of Verus 0.2026.09.13 + Z3, Kani 0.68 + CBMC 6.11 (incl. Kani\'s allocator model)'
A_DEBUG = 'A-overflow-checks: arithmetic overflow is checked as in the dev/test profile (an overflow is a panic, i.e. a failed obligation)'

PAGE_FNS = ['flipdot_core::page::Page::{new, from_bytes, id, width, height, get_pixel, set_pixel, set_all_pixels, as_bytes, '
            'bytes_per_column, data_bytes, total_bytes, byte_bit_indices} (Verus, extracted verbatim)']

PROPS = {}

PROPS['C06'] = {
    'level': 'proof',
    'verus': [{'tmpl': 'page.rs.tmpl', 'obligations': [
        'Page::byte_bit_indices', 'Page::get_pixel', 'Page::set_pixel', 'Page::set_all_pixels', 'Page::id',
        'Page::as_bytes', 'Page::width', 'Page::height', 'Page::bytes_per_column', 'Page::data_bytes', 'Page::total_bytes',
        'lemma_c06_set_pixel', 'lemma_c06_set_all', 'lemma_pix_injective', 'lemma_pix_in_data', 'lemma_bits', 'lemma_all_bits',
        'lemma_total_len', 'lemma_dims_bound']}],
    'kani': [{'package': 'flipdot-core', 'harnesses': [
        H('c06_oob_get_never_returns', kind='never_returns', allowed=['byte_bit_indices']),
        H('c06_oob_set_never_returns', kind='never_returns', allowed=['byte_bit_indices']),
        H('c06_inbounds_get_returns', covers=2),
    ]}],
    'functions': PAGE_FNS,
    'assumptions': [A_USIZE, A_COW, A_FILL, A_TOOLS, A_DEBUG,
                    'out-of-bounds "must panic" is decided by Kani for page images up to 512 bytes (all u32 dimensions whose padded size fits; covers all 11 real sign sizes); the in-bounds behaviour is proved by Verus for all u32 dimensions',
                    'sequences of set/clear/set-all need no exploration: every operation preserves the representation invariant wf() and is characterised on the whole byte view (inductive)'],
    'explanation': 'C06 = whole-view postconditions of set_pixel / set_all_pixels / get_pixel on the real text + lemmas lemma_c06_set_pixel / lemma_c06_set_all deriving the property statement from those postconditions; out-of-bounds panics via Kani never-returns harnesses.',
}

PROPS['C07'] = {
    'level': 'proof',
    'verus': [{'tmpl': 'page.rs.tmpl', 'obligations': [
        'Page::new', 'Page::from_bytes', 'Page::bytes_per_column', 'Page::data_bytes', 'Page::total_bytes',
        'Page::byte_bit_indices', 'Page::get_pixel', 'Page::as_bytes', 'Page::id', 'Page::width', 'Page::height',
        'lemma_pix_injective', 'lemma_pix_in_data', 'lemma_total_len', 'lemma_padded_unique', 'lemma_dims_bound', 'lemma_bits']}],
    'kani': [],
    'functions': PAGE_FNS,
    'assumptions': [A_USIZE, A_COW, A_INTO, A_TOOLS, A_DEBUG,
                    'derived PartialEq on Page is field-wise: "equals the page that produced those bytes" is proved as equality of width, height and byte view',
                    'vstd specifications of Vec::with_capacity / extend_from_slice / resize'],
    'explanation': 'C07 = postconditions of Page::new (exact byte image), Page::from_bytes (Ok iff length == padded size; exposes exactly the bytes given), the three size functions (ceil8, 4 + w*ceil8(h), next multiple of 16) and byte_bit_indices/get_pixel (byte 4 + x*ceil8(h) + y/8, bit y%8, LSB first) for all u32 dimensions, plus lemma_pix_injective (distinct pixels never share a bit).',
}

MSG_FNS = ['flipdot_core::message::<impl From<Frame> for Message>::from (Kani, full domain, loop-free)',
           'flipdot_core::message::<impl From<Message> for Frame>::from (Kani, full domain, loop-free)',
           'flipdot_core::frame::{Frame::new, Data::try_new, Frame::data, Frame::into_data, Frame::address, Frame::message_type} (executed symbolically by the same harnesses)']

PROPS['C04'] = {
    'level': 'proof',
    'kani': [{'package': 'flipdot-core', 'harnesses': [
        H('c04_classification_follows_table', covers=11),
        H('c04_frame_message_frame_identity', covers=4),
        H('c04_identity_owned_data', covers=2),
    ]}],
    'functions': MSG_FNS,
    'assumptions': [A_TOOLS, A_DEBUG,
                    'the protocol code table in kani/core_message.rs (13 state codes, 6+6 operation codes, hello/query/goodbye FF/00/55, pixels complete 06/00) is a third transcription, independent of both conversion functions',
                    'forwarded data (Unknown, SendData) is checked as pointer+length identity of the borrowed block, which implies byte equality; owned data is checked byte-wise for lengths 0..=3'],
    'explanation': 'Loop-free Kani harnesses over the complete input domain (any u16 address, any u8 type, data = any prefix of length 0..=255 of a symbolic 255-byte array): a complete proof, not a bounded one.',
}

PROPS['C19'] = {
    'level': 'proof',
    'kani': [{'package': 'flipdot-core', 'harnesses': [
        H('c19_blocks_self_consistent', covers=3),
        H('c19_family_id_unique', covers=1),
        H('c19_decode_total_and_exact', covers=5, bounded=None),
    ]}],
    'functions': ['flipdot_core::sign_type::SignType::{from_bytes, to_bytes, dimensions} (Kani, loop-free)'],
    'assumptions': [A_TOOLS, A_DEBUG],
    'explanation': 'All 11 variants (exhaustive match => a new variant is a compile error in the harness) and every byte string of length 0..=64 with arbitrary contents.',
}
