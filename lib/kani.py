"""Kani route: overlay harness modules into a scratch copy of /repo's working tree and run them."""
import hashlib
import json
import os
import re
import shutil
import subprocess
import tempfile
import time

HERE = os.path.dirname(os.path.abspath(__file__))
ROOT = os.path.dirname(HERE)
REPO = os.environ.get('VERIF_REPO', '/repo')
CACHE = os.path.join(ROOT, '.cache')

# harness module file (under /verif/kani) -> source file of /repo it becomes a child module of
OVERLAYS = {
    'core_page.rs': 'libs/core/src/page.rs',
    'core_message.rs': 'libs/core/src/message.rs',
    'core_sign_type.rs': 'libs/core/src/sign_type.rs',
    'core_frame.rs': 'libs/core/src/frame.rs',
    'testing_vsign.rs': 'libs/testing/src/virtual_sign_bus.rs',
    'testing_odk.rs': 'libs/testing/src/odk.rs',
    'serial_bus.rs': 'libs/serial/src/serial_sign_bus.rs',
    'sign.rs': 'src/sign.rs',
}
# Isolated harness modules: overlaid like the others, but kept OUT of the content hash of every unit that does not
# name them (unit['isolated']), so adding one does not invalidate the memoised verdicts of its siblings.  Sound because
# such a module only adds #[cfg(kani)] items inside its own module namespace.  File names must not start with a prefix
# listed in PKG_SOURCES.
ISOLATED_OVERLAYS = {
    'xpath_serial_bridge.rs': 'libs/testing/src/odk.rs',
}
# Fragile harness modules: isolated (as above) AND optional - they call private functions whose signatures a change may
# alter. If the package does not compile with them, they are dropped from the scratch tree and the run is repeated; the
# harnesses they contain are then reported as undecided parts instead of taking every other harness down with them.
FRAGILE_OVERLAYS = {
    'xpriv_serial_classifiers.rs': 'libs/serial/src/serial_sign_bus.rs',
}
PACKAGE_OF = {
    'libs/core/': 'flipdot-core', 'libs/testing/': 'flipdot-testing', 'libs/serial/': 'flipdot-serial', 'src/': 'flipdot',
}

# attribute lines inserted directly above a function (add-only; inert without cfg(kani))
ATTR_INSERTS = [
    # (file, regex of the fn line, lines to insert above)
    ('libs/core/src/frame.rs', r'(?m)^fn checksum\(bytes: &\[u8\]\) -> u8 \{',
     ['#[cfg_attr(kani, kani::requires(bytes.len() <= verif_kani_frame::CHECKSUM_MAX))]',
      '#[cfg_attr(kani, kani::ensures(|r: &u8| *r == verif_kani_frame::spec_lrc(bytes)))]']),
]


class ToolLimit(Exception):
    """Anything that is a limit of the tooling (compile error in the overlay, lost anchor, timeout, OOM)."""


class Scratch:
    def __init__(self, keep=False, extra_overlay=None):
        self.keep = keep
        self.dir = None
        self.extra_overlay = extra_overlay or {}

    def __enter__(self):
        base = os.environ.get('TMPDIR', '/tmp')
        self.dir = tempfile.mkdtemp(prefix='flipdot-verif.%d.' % os.getpid(), dir=base)
        self.repo = os.path.join(self.dir, 'repo')
        r = subprocess.run(['rsync', '-a', '--exclude', '/target', '--exclude', '.git', REPO + '/', self.repo + '/'],
                           capture_output=True, text=True)
        if r.returncode != 0:
            raise ToolLimit('rsync failed: ' + r.stderr[-500:])
        self.applied = []
        self._overlay()
        return self

    def __exit__(self, *a):
        if not self.keep and self.dir and os.path.isdir(self.dir):
            shutil.rmtree(self.dir, ignore_errors=True)

    def drop_fragile(self):
        """Remove the fragile harness modules from the scratch tree (after a compile failure). Returns the dropped files."""
        dropped = []
        for mod_file, (tpath, modline) in self.fragile_lines.items():
            t = open(tpath).read()
            if modline in t:
                open(tpath, 'w').write(t.replace(modline, ''))
                dropped.append(mod_file)
        self.fragile_dropped = True
        self._hashes = {}
        return dropped

    def _overlay(self):
        self.isolated_lines = {}
        self.fragile_lines = {}
        self.fragile_dropped = False
        for mod_file, target in list(OVERLAYS.items()) + list(ISOLATED_OVERLAYS.items()) + list(FRAGILE_OVERLAYS.items()):
            src = os.path.join(ROOT, 'kani', mod_file)
            if not os.path.exists(src):
                continue
            tpath = os.path.join(self.repo, target)
            if not os.path.exists(tpath):
                raise ToolLimit('overlay target %s missing in /repo' % target)
            modname = 'verif_kani_' + os.path.splitext(mod_file)[0].split('_', 1)[-1]
            # the harness file is copied into the scratch tree (so nothing under /verif is ever written by the tools)
            hdir = os.path.join(self.dir, 'verif_kani')
            os.makedirs(hdir, exist_ok=True)
            dst = os.path.join(hdir, mod_file)
            text = open(src).read()
            text = re.sub(r'(?m)^//@include (\S+)\s*$', lambda m: open(os.path.join(ROOT, 'kani', m.group(1))).read(), text)
            open(dst, 'w').write(text)
            modline = '\n#[cfg(kani)]\n#[path = "%s"]\nmod %s;\n' % (dst, modname)
            with open(tpath, 'a') as f:
                f.write(modline)
            if mod_file in ISOLATED_OVERLAYS or mod_file in FRAGILE_OVERLAYS:
                self.isolated_lines[mod_file] = modline
            if mod_file in FRAGILE_OVERLAYS:
                self.fragile_lines[mod_file] = (tpath, modline)
            self.applied.append('%s += mod %s (%s)' % (target, modname, src))
        for (file, rx, lines) in ATTR_INSERTS:
            if not os.path.exists(os.path.join(ROOT, 'kani', 'core_frame.rs')):
                continue
            p = os.path.join(self.repo, file)
            s = open(p).read()
            ms = list(re.finditer(rx, s))
            if len(ms) != 1:
                raise ToolLimit('anchor %r found %d times in %s' % (rx, len(ms), file))
            s = s[:ms[0].start()] + '\n'.join(lines) + '\n' + s[ms[0].start():]
            open(p, 'w').write(s)
            self.applied.append('%s: %d contract attribute lines above %s' % (file, len(lines), rx))
        # the controller harnesses (C08) drive a real VirtualSignBus: make flipdot-testing a normal dependency
        # of the root crate in the scratch copy (it is a dev-dependency in /repo). Add-only.
        ct = os.path.join(self.repo, 'Cargo.toml')
        s = open(ct).read()
        if '[target.\'cfg(kani)\'.dependencies]' not in s:
            s = s.replace('[dev-dependencies]', "[target.'cfg(kani)'.dependencies]\nflipdot-testing = { version = \"0.8.0\", path = \"libs/testing\" }\n\n[dev-dependencies]", 1)
            open(ct, 'w').write(s)


_RES_RE = re.compile(r'\*\* (\d+) of (\d+) failed')
_COV_RE = re.compile(r'\*\* (\d+) of (\d+) cover properties satisfied')


def parse_terse(out):
    """Parse `cargo kani -j N --output-format terse` output -> {harness: result}."""
    res = {}
    thread_h = {}
    cur = None
    lines = out.split('\n')
    i = 0
    while i < len(lines):
        ln = lines[i]
        m = re.match(r'^(?:Thread (\d+): )?Checking harness (\S+?)\.\.\.', ln)
        if m:
            t = m.group(1) or '0'
            thread_h[t] = m.group(2)
            if m.group(1) is None:
                cur = {'harness': m.group(2), 'text': []}
            i += 1
            continue
        m = re.match(r'^Thread (\d+): \s*$', ln)
        if m or (ln.startswith('VERIFICATION RESULT:') and cur is None):
            t = m.group(1) if m else '0'
            block = []
            i += 1
            while i < len(lines):
                block.append(lines[i])
                if lines[i].startswith('Verification Time') or lines[i].startswith('CBMC timed out') or lines[i].startswith('CBMC failed'):
                    break
                i += 1
            h = thread_h.get(t)
            if h:
                res[h] = _parse_block('\n'.join(block))
            i += 1
            continue
        if cur is not None:
            cur['text'].append(ln)
            if ln.startswith('Verification Time') or ln.startswith('CBMC timed out'):
                res[cur['harness']] = _parse_block('\n'.join(cur['text']))
                cur = None
        i += 1
    return res


def _parse_block(b):
    r = {'raw': b[-3000:]}
    m = _RES_RE.search(b)
    if m:
        r['failed'] = int(m.group(1))
        r['checks'] = int(m.group(2))
    m = _COV_RE.search(b)
    if m:
        r['cover_sat'] = int(m.group(1))
        r['cover_total'] = int(m.group(2))
    else:
        r['cover_sat'] = r['cover_total'] = 0
    if 'VERIFICATION:- SUCCESSFUL' in b:
        r['status'] = 'SUCCESSFUL'
    elif 'VERIFICATION:- FAILED' in b:
        r['status'] = 'FAILED'
    else:
        r['status'] = 'UNKNOWN'
    fc = []
    for m in re.finditer(r'Failed Checks: (.*?)\n File: "([^"]*)", line (\d+), in (\S+)', b, re.S):
        fc.append({'desc': ' '.join(m.group(1).split()), 'file': m.group(2), 'line': int(m.group(3)), 'fn': m.group(4)})
    r['failed_checks'] = fc
    m = re.search(r'Verification Time: ([0-9.]+)s', b)
    r['time_s'] = float(m.group(1)) if m else None
    return r


PKG_SOURCES = {
    'flipdot-core': (['libs/core/'], ['core_']),
    'flipdot-serial': (['libs/core/', 'libs/serial/'], ['serial_']),
    'flipdot-testing': (['libs/core/', 'libs/serial/', 'libs/testing/'], ['testing_', 'shared_']),
    'flipdot': (['libs/', 'src/'], ['sign', 'shared_']),
}


def _limit_memory():
    # a CBMC run that needs more than this is a tool limit (UNDECIDED), not something to take the machine down with
    import resource
    gb = int(os.environ.get('VERIF_MEM_GB', '16'))
    resource.setrlimit(resource.RLIMIT_AS, (gb << 30, gb << 30))


def tree_hash(scratch, package, isolated=()):
    """Content hash of everything that can influence a verdict for `package`: the sources of the package and of the
    workspace crates it depends on (scratch copy of the working tree, overlay included), the manifests, the harness
    files overlaid into the package, and the tool version."""
    cache = getattr(scratch, '_hashes', None)
    if cache is None:
        cache = scratch._hashes = {}
    ckey = (package, tuple(sorted(isolated)))
    if ckey in cache:
        return cache[ckey]
    dirs, hprefixes = PKG_SOURCES[package]
    h = hashlib.sha256()
    h.update(b'kani-0.68.0|' + package.encode() + b'|')
    files = []
    for root, ds, fs in os.walk(scratch.repo):
        ds[:] = sorted(d for d in ds if d not in ('target', '.git'))
        for f in sorted(fs):
            p = os.path.join(root, f)
            rel = os.path.relpath(p, scratch.repo)
            if f in ('Cargo.toml', 'Cargo.lock') or (f.endswith('.rs') and any(rel.startswith(d) for d in dirs)):
                files.append(p)
    hk = os.path.join(scratch.dir, 'verif_kani')
    if os.path.isdir(hk):
        for f in sorted(os.listdir(hk)):
            if any(f.startswith(x) for x in hprefixes) or f in isolated:
                files.append(os.path.join(hk, f))
    drop = [ln.encode() for f, ln in getattr(scratch, 'isolated_lines', {}).items() if f not in isolated]
    for p in files:
        h.update(os.path.relpath(p, scratch.dir).encode() + b'\0')
        data = open(p, 'rb').read()
        for ln in drop:
            data = data.replace(ln, b'')
        # the overlay writes absolute scratch paths into the sources: normalise them
        h.update(data.replace(scratch.dir.encode(), b'<SCRATCH>') + b'\0')
    cache[ckey] = h.hexdigest()
    return cache[ckey]


VERDICT_CACHE = os.path.join(CACHE, 'kani-verdicts')


def _cache_get(key):
    if os.environ.get('VERIF_NO_CACHE'):
        return None
    p = os.path.join(VERDICT_CACHE, key + '.json')
    if os.path.exists(p):
        try:
            return json.load(open(p))
        except Exception:
            return None
    return None


def _cache_put(key, val):
    os.makedirs(VERDICT_CACHE, exist_ok=True)
    tmp = os.path.join(VERDICT_CACHE, key + '.tmp.%d' % os.getpid())
    json.dump(val, open(tmp, 'w'))
    os.replace(tmp, os.path.join(VERDICT_CACHE, key + '.json'))


def run_harnesses(scratch, package, harnesses, jobs=8, timeout=3600, extra_args=None, target_slot='main', isolated=()):
    """Run the named harnesses of one package; returns (results, meta).
    Verdicts are memoised by content: key = sha256(every source file of the scratch tree incl. the overlaid harness
    modules, tool version, package, harness). Several properties share harnesses (C09/C10/C11, C16/C18, ...); a harness
    whose complete input is byte-identical to an earlier successful run is not re-solved (evidence says so). Any change to
    /repo or to the harness files changes the key. VERIF_NO_CACHE=1 disables this."""
    th = tree_hash(scratch, package, isolated)
    cached = {}
    todo = []
    for h in harnesses:
        c = _cache_get('%s-%s-%s' % (th[:32], package, h))
        if c is not None and h != 'canary_must_fail':
            c['from_cache'] = True
            cached[h] = c
        else:
            todo.append(h)
    if not [h for h in todo if h != 'canary_must_fail'] and cached:
        # everything decided already for these exact inputs; still run the canary to make sure the toolchain works
        pass
    res, meta = _run_harnesses_uncached(scratch, package, todo, jobs, timeout, extra_args, target_slot) if todo else ({}, {'cmd': '(all verdicts reused from the content-addressed cache)', 'wall_s': 0.0, 'exit': 0, 'tail': ''})
    for h, r in res.items():
        if r.get('status') == 'SUCCESSFUL' and not r.get('failed_checks'):
            _cache_put('%s-%s-%s' % (th[:32], package, h), {k: v for k, v in r.items() if k != 'raw'} | {'raw': r.get('raw', '')[-500:], 'cached_at': time.strftime('%Y-%m-%dT%H:%M:%S')})
    res.update(cached)
    meta['reused_from_cache'] = sorted(cached)
    meta['tree_hash'] = th[:32]
    return res, meta


def _run_harnesses_uncached(scratch, package, harnesses, jobs=8, timeout=3600, extra_args=None, target_slot='main'):
    env = dict(os.environ)
    env['CARGO_NET_OFFLINE'] = 'true'
    if target_slot == 'main':
        # concurrent checks (the seed matrix runs several lanes) must not share one cargo target dir: different source trees
        # compiled into the same dir clobber each other's artifacts (seen as spurious 'did not compile' / missing verdicts)
        target_slot = os.environ.get('VERIF_KANI_SLOT', 'main')
    env['CARGO_TARGET_DIR'] = os.path.join(CACHE, 'kani-target-' + target_slot)
    os.makedirs(CACHE, exist_ok=True)
    cmd = ['cargo', 'kani', '-p', package, '-Z', 'function-contracts', '-Z', 'stubbing',
           '--output-format', 'terse', '-j', str(jobs)]
    for h in harnesses:
        cmd += ['--harness', h]
    cmd += ['--exact'] if False else []
    if extra_args:
        cmd += extra_args
    t0 = time.time()
    import signal
    proc = subprocess.Popen(cmd, cwd=scratch.repo, env=env, stdout=subprocess.PIPE, stderr=subprocess.PIPE, text=True,
                            preexec_fn=_limit_memory, start_new_session=True)
    try:
        so, se = proc.communicate(timeout=timeout)
    except subprocess.TimeoutExpired:
        try:
            os.killpg(proc.pid, signal.SIGKILL)  # the whole group (cargo-kani, kani-driver, every cbmc), nothing else
        except Exception:
            pass
        proc.communicate()
        raise ToolLimit('cargo kani timed out after %ds: %s' % (timeout, ' '.join(cmd)))

    class _P:
        pass
    p = _P()
    p.stdout, p.stderr, p.returncode = so, se, proc.returncode
    out = p.stdout + '\n' + p.stderr
    wall = time.time() - t0
    meta = {'cmd': ' '.join(cmd), 'wall_s': wall, 'exit': p.returncode, 'tail': out[-6000:]}
    if 'error: could not compile' in out or re.search(r'(?m)^error(\[E\d+\])?:', out) and 'Checking harness' not in out:
        if getattr(scratch, 'fragile_lines', None) and not scratch.fragile_dropped:
            dropped = scratch.drop_fragile()
            if dropped:
                gone = set()
                for f in dropped:
                    gone |= set(re.findall(r'#\[kani::proof[^\]]*\]\s*(?:#\[[^\]]*\]\s*)*fn\s+(\w+)', open(os.path.join(ROOT, 'kani', f)).read()))
                harnesses = [h for h in harnesses if h not in gone]
                res, meta2 = _run_harnesses_uncached(scratch, package, harnesses, jobs, timeout, extra_args, target_slot)
                meta2['fragile_overlays_dropped'] = dropped
                meta2['wall_s'] += wall
                return res, meta2
        _ls = out.split('\n')
        _errs = [i for i, l in enumerate(_ls) if re.match(r'error(\[E\d+\])?:', l)]
        _first = '\n'.join(_ls[_errs[0]:_errs[0] + 12]) if _errs else ''
        raise ToolLimit('overlay/crate did not compile under kani: ' + _first + '\n...\n' + out[-1500:])
    res = parse_terse(out)
    # map by short name
    short = {}
    for full, r in res.items():
        short[full.split('::')[-1]] = dict(r, full=full)
    return short, meta


def concrete_playback(scratch, package, harness, timeout=1800, target_slot='main'):
    """Re-run one failing harness asking Kani for a concrete counterexample (printed unit test)."""
    env = dict(os.environ)
    env['CARGO_NET_OFFLINE'] = 'true'
    if target_slot == 'main':
        target_slot = os.environ.get('VERIF_KANI_SLOT', 'main')
    env['CARGO_TARGET_DIR'] = os.path.join(CACHE, 'kani-target-' + target_slot)
    cmd = ['cargo', 'kani', '-p', package, '-Z', 'function-contracts', '-Z', 'stubbing', '-Z', 'concrete-playback',
           '--concrete-playback=print', '--harness', harness, '--output-format', 'terse']
    try:
        p = subprocess.run(cmd, cwd=scratch.repo, env=env, capture_output=True, text=True, timeout=timeout)
    except subprocess.TimeoutExpired:
        return None
    out = p.stdout
    blocks = re.findall(r'```\n(.*?)```', out, re.S)
    if not blocks:
        return None
    return '\n'.join(blocks)


def native_playback(scratch, package, harness, test_code, timeout=1200, target_slot='main'):
    """Replay Kani's concrete counterexample natively against the real code (`cargo kani playback`): the generated unit
    tests are appended to the harness module in the scratch tree and executed as ordinary Rust tests."""
    if not test_code:
        return None
    hdir = os.path.join(scratch.dir, 'verif_kani')
    target = None
    for f in sorted(os.listdir(hdir)):
        if re.search(r'\bfn\s+%s\s*\(' % re.escape(harness), open(os.path.join(hdir, f)).read()):
            target = os.path.join(hdir, f)
            break
    if target is None:
        return None
    names = re.findall(r'fn (kani_concrete_playback_\w+)\(', test_code)
    original = open(target).read()
    with open(target, 'a') as fh:
        fh.write('\n// ---- concrete playback tests generated by Kani for the failed harness ----\n' + test_code + '\n')
    try:
        return _native_playback_run(scratch, package, harness, timeout, target_slot)
    finally:
        # the scratch tree is shared with the Kani units that run after this one: the generated tests (which need not even
        # be valid Rust: Kani copies cover names with quotes into doc comments) must not stay in the harness module
        with open(target, 'w') as fh:
            fh.write(original)


def _native_playback_run(scratch, package, harness, timeout, target_slot):
    env = dict(os.environ)
    env['CARGO_NET_OFFLINE'] = 'true'
    if target_slot == 'main':
        target_slot = os.environ.get('VERIF_KANI_SLOT', 'main')
    env['CARGO_TARGET_DIR'] = os.path.join(CACHE, 'kani-target-' + target_slot)
    cmd = ['cargo', 'kani', 'playback', '-Z', 'concrete-playback', '-p', package, '--', 'kani_concrete_playback_' + harness]
    try:
        p = subprocess.run(cmd, cwd=scratch.repo, env=env, capture_output=True, text=True, timeout=timeout)
    except subprocess.TimeoutExpired:
        return {'ran': False, 'reason': 'timeout'}
    out = p.stdout + p.stderr
    per_test = {}
    for m in re.finditer(r'test \S*?(kani_concrete_playback_\w+) \.\.\. (ok|FAILED)', out):
        per_test[m.group(1)] = m.group(2)
    return {'ran': bool(per_test), 'cmd': ' '.join(cmd), 'tests': per_test,
            'some_test_failed_natively': any(v == 'FAILED' for v in per_test.values()),
            'output_tail': out[-1500:]}


def harness_stubs(harness_names):
    """Mechanical scan of the harness files: which functions are replaced by stubs in which harness, and how many
    kani::assume calls the file contains (every stub / assume is an assumption, not proof)."""
    out = []
    for f in sorted(os.listdir(os.path.join(ROOT, 'kani'))):
        if not f.endswith('.rs'):
            continue
        text = open(os.path.join(ROOT, 'kani', f)).read()
        lines = text.split('\n')
        pending = []
        for ln in lines:
            st = ln.strip()
            m = re.match(r'#\[kani::stub\(([^,]+),\s*([^)]+)\)\]', st)
            if m:
                pending.append('%s -> %s' % (m.group(1).strip(), m.group(2).strip()))
                continue
            m = re.match(r'(?:pub(?:\([a-z]+\))?\s+)?fn\s+(\w+)', st)
            if m:
                if m.group(1) in harness_names and pending:
                    out.append('kani stubs in %s (%s): %s' % (m.group(1), f, '; '.join(pending)))
                pending = []
            elif st and not st.startswith('#[') and not st.startswith('//'):
                pending = []
        if any(re.search(r'\bfn\s+%s\b' % re.escape(h), text) for h in harness_names):
            out.append('%s: %d kani::assume call(s) (input-domain constraints and the bounded stand-ins described in the harness comments)' % (f, len(re.findall(r'kani::assume\(', text))))
    return out
