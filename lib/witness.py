"""Wrapper around the native differential search binary (witness/)."""
import json
import os
import subprocess
import time

HERE = os.path.dirname(os.path.abspath(__file__))
ROOT = os.path.dirname(HERE)
CACHE = os.path.join(ROOT, '.cache')

# which search domains can produce a failing input for which property
DOMAINS_FOR = {
    'C01': ['frame-encode', 'frame-decode'], 'C02': ['frame-decode', 'stream', 'frame-encode'], 'C03': ['frame-decode'],
    'C04': ['message'], 'C05': ['message', 'frame-decode', 'stream', 'frame-encode'], 'C06': ['page'], 'C07': ['page'], 'C19': ['signtype'],
    'C08': ['e2e'], 'C09': ['controller'], 'C10': ['controller'], 'C11': ['controller'], 'C14': ['bus'], 'C15': ['stream'], 'C16': ['serial'], 'C17': ['bridge', 'serial-path'], 'C18': ['serial'],
}


REPO = os.environ.get('VERIF_REPO', '/repo')


def _exe():
    """Build the witness crate against the current working tree of REPO.

    The build uses a STAGING COPY of the tree that is synchronised by content (rsync --checksum without preserving
    times): a file whose content changed gets a fresh mtime, so cargo's mtime-based fingerprints can never leave a
    stale object behind when a tree is restored with old timestamps (rsync -a, cp -p, a snapshot restore)."""
    import hashlib
    import shutil
    tag = hashlib.sha256(REPO.encode()).hexdigest()[:8]
    src = os.path.join(ROOT, 'witness')
    stage = os.path.join(CACHE, 'witness-stage-' + tag)
    crate = os.path.join(stage, 'witness')
    srepo = os.path.join(stage, 'repo')
    os.makedirs(os.path.join(crate, 'src'), exist_ok=True)
    os.makedirs(srepo, exist_ok=True)
    r = subprocess.run(['rsync', '-rlc', '--delete', '--exclude', '/target', '--exclude', '.git', REPO.rstrip('/') + '/', srepo + '/'], capture_output=True, text=True)
    if r.returncode != 0:
        raise RuntimeError('staging copy failed: ' + r.stderr[-500:])
    r = subprocess.run(['rsync', '-rlc', '--delete', os.path.join(src, 'src') + '/', os.path.join(crate, 'src') + '/'], capture_output=True, text=True)
    if r.returncode != 0:
        raise RuntimeError('staging copy failed: ' + r.stderr[-500:])
    toml = open(os.path.join(src, 'Cargo.toml')).read().replace('/repo/', srepo + '/')
    tp = os.path.join(crate, 'Cargo.toml')
    if not os.path.exists(tp) or open(tp).read() != toml:
        open(tp, 'w').write(toml)
    if os.path.exists(os.path.join(src, 'Cargo.lock')) and not os.path.exists(os.path.join(crate, 'Cargo.lock')):
        shutil.copyfile(os.path.join(src, 'Cargo.lock'), os.path.join(crate, 'Cargo.lock'))
    target = os.path.join(stage, 'target')
    env = dict(os.environ, CARGO_NET_OFFLINE='true', CARGO_TARGET_DIR=target)
    p = subprocess.run(['cargo', 'build', '--release', '--offline'], cwd=crate, env=env, capture_output=True, text=True)
    if p.returncode != 0:
        raise RuntimeError('witness crate does not build against the current tree: ' + p.stderr[-1200:])
    return os.path.join(target, 'release', 'witness')


def run_search(domain, seed=1, timeout=1800, scale=1):
    t0 = time.time()
    exe = _exe()
    cmd = [exe, 'search', domain, str(seed)]
    p = subprocess.run(cmd, capture_output=True, text=True, timeout=timeout, env=dict(os.environ, WITNESS_SCALE=str(scale)))
    line = [l for l in p.stdout.split('\n') if l.startswith('{')]
    if not line:
        raise RuntimeError('witness search produced no verdict: ' + p.stderr[-500:])
    r = json.loads(line[-1])
    r['seed'] = seed
    r['wall_s'] = time.time() - t0
    r['cmd'] = 'WITNESS_SCALE=%d ' % scale + ' '.join(cmd)
    return r


def search(pid, obligation_name=None):
    """Try to find a concrete failing input for a failed obligation of property pid."""
    for dom in DOMAINS_FOR.get(pid, []):
        try:
            r = run_search(dom)
        except Exception:
            continue
        if r.get('found'):
            return {'domain': dom, 'input': r['input'], 'expected': r['expected'], 'actual': r['actual'], 'seed': r.get('seed', 1)}
    return None


def replay(w):
    exe = _exe()
    p = subprocess.run([exe, 'replay', w['domain'], w['input'], str(w.get('seed', 1))], capture_output=True, text=True, timeout=900)
    print(p.stdout.strip())
    return 1 if p.returncode == 1 else 0
